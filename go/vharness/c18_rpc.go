//go:build verif

package main

import (
	"context"
	"encoding/json"
	"fmt"
	"io"
	"net/http"
	"net/http/httptest"
	"sort"
	"strconv"
	"strings"
	"sync"
	"sync/atomic"
	"time"

	"github.com/go-resty/resty/v2"
	"github.com/hyperledger/firefly-common/pkg/fftypes"
	"github.com/hyperledger/firefly-common/pkg/wsclient"
	"github.com/hyperledger/firefly-signer/pkg/rpcbackend"
)

// ---------- scripted transport for the WebSocket client ----------
type fakeWS struct {
	mu   sync.Mutex
	sent [][]byte
	recv chan []byte
}

func newFakeWS() *fakeWS { return &fakeWS{recv: make(chan []byte)} }

func (f *fakeWS) Connect() error                         { return nil }
func (f *fakeWS) Receive() <-chan []byte                 { return f.recv }
func (f *fakeWS) ReceiveExt() <-chan *wsclient.WSPayload { return nil }
func (f *fakeWS) URL() string                            { return "fake" }
func (f *fakeWS) SetURL(string)                          {}
func (f *fakeWS) SetHeader(string, string)               {}
func (f *fakeWS) Close()                                 {}
func (f *fakeWS) Send(_ context.Context, m []byte) error {
	f.mu.Lock()
	f.sent = append(f.sent, append([]byte{}, m...))
	f.mu.Unlock()
	return nil
}
func (f *fakeWS) nSent() int { f.mu.Lock(); defer f.mu.Unlock(); return len(f.sent) }
func (f *fakeWS) frame(i int) map[string]any {
	f.mu.Lock()
	defer f.mu.Unlock()
	var m map[string]any
	_ = json.Unmarshal(f.sent[i], &m)
	return m
}

// waitSent waits until n frames have been written
func (f *fakeWS) waitSent(n int, d time.Duration) bool {
	deadline := time.Now().Add(d)
	for f.nSent() < n {
		if time.Now().After(deadline) {
			return false
		}
		time.Sleep(20 * time.Microsecond)
	}
	return true
}

// push hands a frame to the receive loop and returns once the loop has fully processed it
func (f *fakeWS) push(frame string) bool {
	for _, fr := range []string{frame, "barrier-not-json"} {
		select {
		case f.recv <- []byte(fr):
		case <-time.After(3 * time.Second):
			return false
		}
	}
	return true
}

type wsCall struct {
	caller int
	id     int
	done   chan struct{}
	ok     bool
	result int
	errMsg string
	cancel context.CancelFunc
}

type wsSub struct {
	lid       int
	sub       rpcbackend.Subscription
	done      chan struct{}
	ok        bool
	notes     []string
	mu        sync.Mutex
	stopped   chan struct{}
	unsubDone chan struct{}
}

// runs one WS scenario against the real client; returns the request for the oracle with the observations embedded
func c18WsScenario(r *Rng, nOps int, reconnectEnabled bool) map[string]any {
	ctx, cancelAll := context.WithCancel(context.Background())
	defer cancelAll()
	ft := newFakeWS()
	rc, reconnect := rpcbackend.VerifNewWS(ctx, ft, !reconnectEnabled)
	var ops []map[string]any
	calls := map[int]*wsCall{} // by request id
	var allCalls []*wsCall
	subs := map[int]*wsSub{}
	nextCaller, nextSub, nextServerID := 1, 1, 100
	var problems []string
	idOfFrame := func(i int) int {
		fr := ft.frame(i)
		s, _ := fr["id"].(string)
		n, _ := strconv.Atoi(s)
		return n
	}
	startCall := func(method string, arg any) *wsCall {
		cctx, cancel := context.WithCancel(ctx)
		c := &wsCall{caller: nextCaller, done: make(chan struct{}), cancel: cancel}
		nextCaller++
		before := ft.nSent()
		go func() {
			var res int
			rpcErr := rc.CallRPC(cctx, &res, method, arg)
			c.ok = rpcErr == nil
			c.result = res
			if rpcErr != nil {
				c.errMsg = rpcErr.Message
			}
			close(c.done)
		}()
		if !ft.waitSent(before+1, 3*time.Second) {
			problems = append(problems, "CallRPC wrote no frame")
			return c
		}
		c.id = idOfFrame(before)
		calls[c.id] = c
		allCalls = append(allCalls, c)
		ops = append(ops, map[string]any{"t": "call", "caller": c.caller, "obsId": c.id})
		return c
	}
	waitDone := func(ch chan struct{}, what string) bool {
		select {
		case <-ch:
			return true
		case <-time.After(3 * time.Second):
			problems = append(problems, "hang: "+what+" did not complete")
			return false
		}
	}
	pendingSubReq := map[int]int{} // request id -> sub lid (harness view, from frames)
	activeServer := map[int]int{}  // server id -> sub lid (harness view of what it confirmed)
	for i := 0; i < nOps; i++ {
		switch r.Intn(12) {
		case 0, 1, 2:
			startCall("eth_test", nextCaller)
		case 3, 4, 5: // reply to some outstanding or stale / unknown id, result or error
			var ids []int
			for id, c := range calls {
				select {
				case <-c.done:
				default:
					ids = append(ids, id)
				}
			}
			for id := range pendingSubReq {
				ids = append(ids, id)
			}
			sort.Ints(ids)
			id := 9999
			switch {
			case len(ids) > 0 && r.Intn(8) != 0:
				id = ids[r.Intn(len(ids))]
			case ft.nSent() > 0 && r.Bool():
				id = idOfFrame(r.Intn(ft.nSent())) // possibly already answered: a duplicate
			}
			isErr := r.Intn(5) == 0
			if lid, isSub := pendingSubReq[id]; isSub {
				sid := nextServerID
				nextServerID++
				kind := "result"
				frame := fmt.Sprintf(`{"jsonrpc":"2.0","id":"%.9d","result":"%d"}`, id, sid)
				var sidv any = sid
				if isErr {
					kind, sidv = "error", nil
					frame = fmt.Sprintf(`{"jsonrpc":"2.0","id":"%.9d","error":{"code":-32000,"message":"no"}}`, id)
				} else if r.Intn(10) == 0 {
					sidv = nil
					frame = fmt.Sprintf(`{"jsonrpc":"2.0","id":"%.9d","result":""}`, id)
				}
				if !ft.push(frame) {
					problems = append(problems, "receive loop stuck")
				}
				delete(pendingSubReq, id)
				if sidv != nil {
					activeServer[sid] = lid
				}
				ops = append(ops, map[string]any{"t": "reply", "id": id, "kind": kind, "serverId": sidv})
				if s := subs[lid]; s != nil {
					select {
					case <-s.done:
					case <-time.After(50 * time.Millisecond): // only the first confirmation has a waiter
					}
				}
			} else {
				frame := fmt.Sprintf(`{"jsonrpc":"2.0","id":"%.9d","result":%d}`, id, id*7)
				kind := "result"
				if isErr {
					kind = "error"
					frame = fmt.Sprintf(`{"jsonrpc":"2.0","id":"%.9d","error":{"code":-32000,"message":"no %d"}}`, id, id)
				}
				if !ft.push(frame) {
					problems = append(problems, "receive loop stuck")
				}
				ops = append(ops, map[string]any{"t": "reply", "id": id, "kind": kind, "serverId": nil})
				if c := calls[id]; c != nil {
					waitDone(c.done, fmt.Sprintf("caller %d after its reply", c.caller))
				}
			}
		case 6: // subscribe
			s := &wsSub{lid: nextSub, done: make(chan struct{}), stopped: make(chan struct{})}
			nextSub++
			subs[s.lid] = s
			before := ft.nSent()
			go func() {
				sub, rpcErr := rc.Subscribe(ctx, "topic", s.lid)
				s.ok = rpcErr == nil
				s.sub = sub
				if sub != nil {
					go func() {
						for n := range sub.Notifications() {
							s.mu.Lock()
							s.notes = append(s.notes, n.CurrentSubID)
							s.mu.Unlock()
						}
						close(s.stopped)
					}()
				}
				close(s.done)
			}()
			if !ft.waitSent(before+1, 3*time.Second) {
				problems = append(problems, "Subscribe wrote no frame")
				continue
			}
			pendingSubReq[idOfFrame(before)] = s.lid
			ops = append(ops, map[string]any{"t": "subscribe", "sub": s.lid}, map[string]any{"t": "sendSubscribe", "sub": s.lid, "obsId": idOfFrame(before)})
		case 7: // notification for a known, stale or unknown server id
			sid := 5
			var sids []int
			for k := range activeServer {
				sids = append(sids, k)
			}
			sort.Ints(sids)
			if len(sids) > 0 && r.Intn(6) != 0 {
				sid = sids[r.Intn(len(sids))]
			}
			if !ft.push(fmt.Sprintf(`{"jsonrpc":"2.0","method":"eth_subscription","params":{"subscription":"%d","result":{"n":%d}}}`, sid, i)) {
				problems = append(problems, "receive loop stuck on notification")
			}
			ops = append(ops, map[string]any{"t": "notify", "serverId": sid})
		case 8: // the connection drops and is re-established: the reconnect callback runs
			before := ft.nSent()
			if err := reconnect(ctx); err != nil {
				problems = append(problems, "reconnect callback failed: "+err.Error())
			}
			var order []int
			for k := before; k < ft.nSent(); k++ {
				fr := ft.frame(k)
				ps, _ := fr["params"].([]any)
				if fr["method"] == "eth_subscribe" && len(ps) == 2 {
					lid := int(ps[1].(float64))
					order = append(order, lid)
					if reconnectEnabled {
						pendingSubReq[idOfFrame(k)] = lid
					}
				}
			}
			if reconnectEnabled {
				for id := range pendingSubReq { // requests of the old connection are void
					stale := true
					for k := before; k < ft.nSent(); k++ {
						if idOfFrame(k) == id {
							stale = false
						}
					}
					if stale {
						delete(pendingSubReq, id)
					}
				}
				activeServer = map[int]int{}
				for _, c := range allCalls { // every call outstanding on the old connection must now complete
					select {
					case <-c.done:
					case <-time.After(3 * time.Second):
						problems = append(problems, fmt.Sprintf("hang: caller %d (id %d) still waiting after reconnect", c.caller, c.id))
					}
				}
			}
			ops = append(ops, map[string]any{"t": "reconnect", "order": order})
		case 9: // unsubscribe
			var lids []int
			for lid, s := range subs {
				if s.sub != nil && s.unsubDone == nil {
					lids = append(lids, lid)
				}
			}
			sort.Ints(lids)
			if len(lids) == 0 {
				continue
			}
			s := subs[lids[r.Intn(len(lids))]]
			s.unsubDone = make(chan struct{})
			before := ft.nSent()
			go func() { _ = s.sub.Unsubscribe(ctx); close(s.unsubDone) }()
			ops = append(ops, map[string]any{"t": "unsubscribe", "sub": s.lid})
			// either it completes (not active) or it issues eth_unsubscribe and waits for the answer
			deadline := time.Now().Add(3 * time.Second)
			for {
				finished := false
				select {
				case <-s.unsubDone:
					finished = true
				default:
				}
				if finished {
					break
				}
				if ft.nSent() > before {
					id := idOfFrame(before)
					c := &wsCall{caller: nextCaller, id: id, done: s.unsubDone}
					nextCaller++
					calls[id] = c
					ops = append(ops, map[string]any{"t": "call", "caller": c.caller, "obsId": id, "unsub": true})
					break
				}
				if time.Now().After(deadline) {
					problems = append(problems, "hang: Unsubscribe neither completed nor sent eth_unsubscribe")
					break
				}
				time.Sleep(20 * time.Microsecond)
			}
			for sid, lid := range activeServer {
				if lid == s.lid {
					delete(activeServer, sid)
				}
			}
		case 10: // a caller gives up
			var ids []int
			for id, c := range calls {
				select {
				case <-c.done:
				default:
					if c.cancel != nil {
						ids = append(ids, id)
					}
				}
			}
			sort.Ints(ids)
			if len(ids) == 0 {
				continue
			}
			c := calls[ids[r.Intn(len(ids))]]
			c.cancel()
			waitDone(c.done, fmt.Sprintf("caller %d after cancellation", c.caller))
			ops = append(ops, map[string]any{"t": "cancelCall", "id": c.id})
		default:
			startCall("eth_other", nextCaller)
		}
	}
	time.Sleep(2 * time.Millisecond)
	// observations
	callObs := map[string]any{}
	for _, c := range allCalls {
		st := "pending"
		select {
		case <-c.done:
			st = "err"
			if c.ok {
				st = "ok"
				if c.result != c.id*7 {
					problems = append(problems, fmt.Sprintf("caller %d (request id %d) received result %d, which answers request %d", c.caller, c.id, c.result, c.result/7))
				}
			} else if strings.HasPrefix(c.errMsg, "no ") && c.errMsg != fmt.Sprintf("no %d", c.id) {
				problems = append(problems, fmt.Sprintf("caller %d (request id %d) received the error of another request: %s", c.caller, c.id, c.errMsg))
			}
		default:
		}
		callObs[fmt.Sprint(c.caller)] = st
	}
	subObs := map[string]any{}
	for lid, s := range subs {
		st := "pending"
		select {
		case <-s.done:
			st = "err"
			if s.ok {
				st = "ok"
			}
		default:
		}
		s.mu.Lock()
		subObs[fmt.Sprint(lid)] = map[string]any{"subscribe": st, "notes": append([]string{}, s.notes...)}
		s.mu.Unlock()
	}
	var frames []any
	for k := 0; k < ft.nSent(); k++ {
		fr := ft.frame(k)
		kind := "call"
		if fr["method"] == "eth_subscribe" {
			kind = "sub"
		}
		frames = append(frames, map[string]any{"id": idOfFrame(k), "kind": kind})
	}
	tables := rpcbackend.VerifWSTables(rc)
	return map[string]any{"op": "rpcws.run", "reconnectEnabled": reconnectEnabled, "ops": ops, "implCalls": callObs, "implSubs": subObs, "implFrames": frames,
		"implTables": map[string]any{"calls": len(tables["calls"]), "pending": len(tables["pending"]), "active": len(tables["active"]), "configured": len(tables["configured"])},
		"problems":   problems}
}

// ---------- HTTP client: concurrency bound, unique ids, own reply with own id ----------
func c18HttpScenario(r *Rng, callers int, limit int, procs int) map[string]any {
	var inflight, maxInflight int64
	var mu sync.Mutex
	seenIDs := map[string]int{}
	var events []map[string]any
	echoMode := r.Intn(3)
	srv := httptest.NewServer(http.HandlerFunc(func(w http.ResponseWriter, rq *http.Request) {
		b, _ := io.ReadAll(rq.Body)
		var req map[string]any
		_ = json.Unmarshal(b, &req)
		n := atomic.AddInt64(&inflight, 1)
		mu.Lock()
		if n > maxInflight {
			maxInflight = n
		}
		id, _ := req["id"].(string)
		seenIDs[id]++
		ps, _ := req["params"].([]any)
		caller := -1
		if len(ps) > 0 {
			caller = int(ps[0].(float64))
		}
		idn, _ := strconv.Atoi(id)
		events = append(events, map[string]any{"t": "arrive", "caller": caller}, map[string]any{"t": "acquire", "caller": caller, "obsId": idn})
		mu.Unlock()
		time.Sleep(time.Duration(200+(caller*37)%900) * time.Microsecond)
		mu.Lock()
		events = append(events, map[string]any{"t": "reply", "id": idn})
		mu.Unlock()
		atomic.AddInt64(&inflight, -1)
		echo := req["id"]
		switch echoMode {
		case 1:
			echo = "someone-else"
		case 2:
			echo = 12345
		}
		w.Header().Set("Content-Type", "application/json")
		if caller%7 == 3 {
			w.WriteHeader(500)
			_ = json.NewEncoder(w).Encode(map[string]any{"jsonrpc": "2.0", "id": echo, "error": map[string]any{"code": -32000, "message": fmt.Sprintf("err %d", caller)}})
			return
		}
		_ = json.NewEncoder(w).Encode(map[string]any{"jsonrpc": "2.0", "id": echo, "result": caller * 11})
	}))
	defer srv.Close()
	rc := rpcbackend.NewRPCClientWithOption(resty.New().SetBaseURL(srv.URL), rpcbackend.RPCClientOptions{MaxConcurrentRequest: int64(limit)})
	var wg sync.WaitGroup
	var problems []string
	var pmu sync.Mutex
	for c := 0; c < callers; c++ {
		wg.Add(1)
		go func(c int) {
			defer wg.Done()
			idText := fmt.Sprintf(`"caller-%d"`, c)
			if c%3 == 0 {
				idText = fmt.Sprint(c)
			}
			req := &rpcbackend.RPCRequest{Method: "m", ID: fftypes.JSONAnyPtr(idText), Params: nil}
			req.Params = append(req.Params, fftypes.JSONAnyPtr(fmt.Sprint(c)))
			res, err := rc.SyncRequest(context.Background(), req)
			pmu.Lock()
			defer pmu.Unlock()
			if res == nil {
				problems = append(problems, fmt.Sprintf("caller %d got no response object", c))
				return
			}
			if res.ID == nil || res.ID.String() != idText {
				problems = append(problems, fmt.Sprintf("caller %d (id %s) received a response carrying id %v", c, idText, res.ID))
			}
			if req.ID.String() != idText {
				problems = append(problems, fmt.Sprintf("caller %d: its request id was rewritten to %s", c, req.ID))
			}
			if c%7 == 3 {
				if err == nil || res.Error == nil || res.Error.Message != fmt.Sprintf("err %d", c) {
					problems = append(problems, fmt.Sprintf("caller %d did not receive its own error: %v", c, res.Error))
				}
			} else if err != nil || res.Result == nil || res.Result.String() != fmt.Sprint(c*11) {
				problems = append(problems, fmt.Sprintf("caller %d received result %v (err %v), expected its own %d", c, res.Result, err, c*11))
			}
		}(c)
	}
	wg.Wait()
	for id, n := range seenIDs {
		if n > 1 {
			problems = append(problems, fmt.Sprintf("backend request id %q used %d times", id, n))
		}
	}
	if limit > 0 && int(maxInflight) > limit {
		problems = append(problems, fmt.Sprintf("%d requests outstanding at the backend with a limit of %d", maxInflight, limit))
	}
	// ids are allocated after the slot is taken, so request n held its slot before request n+1 was allocated:
	// present the acquisitions to the model in allocation order (arrival order at the backend may differ)
	callerOf := map[int]int{}
	for _, e := range events {
		if e["t"] == "acquire" {
			callerOf[e["obsId"].(int)] = e["caller"].(int)
		}
	}
	var ordered []map[string]any
	emitted := 0
	for _, e := range events {
		switch e["t"] {
		case "arrive":
		case "acquire":
			for m := emitted + 1; m <= e["obsId"].(int); m++ {
				if cl, has := callerOf[m]; has {
					ordered = append(ordered, map[string]any{"t": "arrive", "caller": cl}, map[string]any{"t": "acquire", "caller": cl, "obsId": m})
				}
				emitted = m
			}
		default:
			ordered = append(ordered, e)
		}
	}
	events = ordered
	return map[string]any{"op": "rpchttp.run", "limit": limit, "ops": events, "implMaxInflight": maxInflight, "implIssued": len(seenIDs), "callers": callers, "problems": problems}
}

// UnsubscribeAll while one subscription is active and another is still awaiting its confirmation: afterwards nothing
// is configured, a late confirmation activates nothing, and no notification reaches any of them
func c18UnsubscribeAllProbe(r *Rng, iters int) map[string]any {
	var problems []string
	for it := 0; it < iters && len(problems) == 0; it++ {
		ctx, cancel := context.WithCancel(context.Background())
		ft := newFakeWS()
		rc, reconnect := rpcbackend.VerifNewWS(ctx, ft, it%2 == 0)
		go func() { _, _ = rc.Subscribe(ctx, "topic", 1) }()
		ft.waitSent(1, time.Second)
		idA, _ := ft.frame(0)["id"].(string)
		ft.push(fmt.Sprintf(`{"jsonrpc":"2.0","id":"%s","result":"400"}`, idA))
		time.Sleep(2 * time.Millisecond)
		if it%4 >= 2 && it%2 == 1 {
			// the active one is back to unconfirmed after a reconnect
			_ = reconnect(ctx)
		}
		go func() { _, _ = rc.Subscribe(ctx, "topic", 2) }() // never confirmed before UnsubscribeAll
		ft.waitSent(ft.nSent()+1, time.Second)
		time.Sleep(2 * time.Millisecond)
		var got int64
		for _, sub := range rc.Subscriptions() {
			go func(sub rpcbackend.Subscription) {
				for range sub.Notifications() {
					atomic.AddInt64(&got, 1)
				}
			}(sub)
		}
		nBefore := len(rc.Subscriptions())
		done := make(chan struct{})
		answered := ft.nSent()
		go func() { _ = rc.UnsubscribeAll(ctx); close(done) }()
		deadline := time.Now().Add(3 * time.Second)
	loop:
		for {
			for k := answered; k < ft.nSent(); k++ {
				fr := ft.frame(k)
				id, _ := fr["id"].(string)
				if fr["method"] == "eth_unsubscribe" {
					ft.push(fmt.Sprintf(`{"jsonrpc":"2.0","id":"%s","result":true}`, id))
				}
				answered = k + 1
			}
			select {
			case <-done:
				break loop
			default:
			}
			if time.Now().After(deadline) {
				problems = append(problems, "hang: UnsubscribeAll did not return within 3s")
				break
			}
			time.Sleep(50 * time.Microsecond)
		}
		if n := len(rc.Subscriptions()); n != 0 {
			problems = append(problems, fmt.Sprintf("after UnsubscribeAll %d of %d subscriptions are still configured (one of them was awaiting its confirmation)", n, nBefore))
		}
		atomic.StoreInt64(&got, 0)
		// late confirmations for every eth_subscribe that was never answered, then notifications for those ids
		for k := 0; k < ft.nSent(); k++ {
			fr := ft.frame(k)
			id, _ := fr["id"].(string)
			if fr["method"] == "eth_subscribe" && id != idA {
				ft.push(fmt.Sprintf(`{"jsonrpc":"2.0","id":"%s","result":"%d"}`, id, 700+k))
			}
		}
		time.Sleep(2 * time.Millisecond)
		for k := 0; k < ft.nSent(); k++ {
			ft.push(fmt.Sprintf(`{"jsonrpc":"2.0","method":"eth_subscription","params":{"subscription":"%d","result":{"n":1}}}`, 700+k))
		}
		ft.push(`{"jsonrpc":"2.0","method":"eth_subscription","params":{"subscription":"400","result":{"n":2}}}`)
		time.Sleep(20 * time.Millisecond)
		if n := atomic.LoadInt64(&got); n != 0 {
			problems = append(problems, fmt.Sprintf("%d notifications were delivered to subscriptions after UnsubscribeAll: a subscription unsubscribed while awaiting confirmation still owns a server id", n))
		}
		cancel()
	}
	return map[string]any{"op": "rpcws.run", "reconnectEnabled": true, "ops": []any{}, "probe": "unsubscribe-all", "iterations": iters, "problems": problems,
		"implCalls": map[string]any{}, "implSubs": map[string]any{}, "implFrames": []any{}, "implTables": map[string]any{"calls": 0, "pending": 0, "active": 0, "configured": 0}}
}

// many callers issuing requests back to back against a backend that answers at once: every backend request must
// carry an id of its own and every caller must get its own result (id allocation is where a lost atomicity shows)
func c18HttpIdStress(workers, perWorker, limit int) map[string]any {
	var mu sync.Mutex
	seen := map[string]int{}
	srv := httptest.NewServer(http.HandlerFunc(func(w http.ResponseWriter, rq *http.Request) {
		var req struct {
			ID     json.RawMessage   `json:"id"`
			Params []json.RawMessage `json:"params"`
		}
		_ = json.NewDecoder(rq.Body).Decode(&req)
		mu.Lock()
		seen[string(req.ID)]++
		mu.Unlock()
		w.Header().Set("Content-Type", "application/json")
		p0 := "null"
		if len(req.Params) > 0 {
			p0 = string(req.Params[0])
		}
		_, _ = w.Write([]byte(`{"jsonrpc":"2.0","id":` + string(req.ID) + `,"result":` + p0 + `}`))
	}))
	defer srv.Close()
	rc := rpcbackend.NewRPCClientWithOption(resty.New().SetBaseURL(srv.URL), rpcbackend.RPCClientOptions{MaxConcurrentRequest: int64(limit)})
	var wg sync.WaitGroup
	var wrong int64
	for g := 0; g < workers; g++ {
		wg.Add(1)
		go func(g int) {
			defer wg.Done()
			for n := 0; n < perWorker; n++ {
				var out int
				want := g*1000000 + n
				if rerr := rc.CallRPC(context.Background(), &out, "m", want); rerr != nil || out != want {
					atomic.AddInt64(&wrong, 1)
				}
			}
		}(g)
	}
	wg.Wait()
	var problems []string
	dups, worst := 0, ""
	for id, n := range seen {
		if n > 1 {
			dups++
			worst = id
		}
	}
	if dups > 0 {
		problems = append(problems, fmt.Sprintf("backend request id %s (and %d more) used more than once among %d requests from %d concurrent callers", worst, dups-1, workers*perWorker, workers))
	}
	if wrong > 0 {
		problems = append(problems, fmt.Sprintf("%d of %d callers did not receive their own result", wrong, workers*perWorker))
	}
	return map[string]any{"op": "rpchttp.run", "probe": "idstress", "limit": limit, "ops": []any{}, "requests": workers * perWorker, "problems": problems}
}

func init() {
	register(&Suite{Prop: "C18",
		Gen: func(c *Ctx) {
			nWs, nHTTP := 150, 12
			if c.Thorough() {
				nWs, nHTTP = 3000, 80
			}
			for i := 0; i < nWs; i++ {
				c.Add(c18WsScenario(c.R, 5+c.R.Intn(40), i%5 != 0), "ws")
			}
			nConc, raceIters := 10, 300
			if c.Thorough() {
				nConc, raceIters = 100, 5000
			}
			for i := 0; i < nConc; i++ {
				c.Add(c18WsConcurrent(c.R, 1+c.R.Intn(64), i%2 == 0), "ws.concurrent")
			}
			c.Add(c18SubscribeReconnectRace(c.R, raceIters), "ws.subscribe-reconnect-race")
			c.Add(c18UnsubscribeReconnectRace(c.R, raceIters), "ws.unsubscribe-reconnect-race")
			c.Add(c18UnsubscribeAllProbe(c.R, 40), "ws.unsubscribe-all")
			for i := 0; i < nHTTP; i++ {
				c.Add(c18HttpCancelScenario(c.R, 1+c.R.Intn(8), 1+c.R.Intn(6)), "http.cancel")
			}
			for i := 0; i < nHTTP; i++ {
				c.Add(c18HttpScenario(c.R, 1+c.R.Intn(64), c.R.Intn(9), 0), "http")
			}
			per := 2000
			if c.Thorough() {
				per = 20000
			}
			c.Add(c18HttpIdStress(16, per, 0), "http.idstress")
			c.Add(c18HttpIdStress(16, per/2, 4), "http.idstress")
		},
		Impl: func(req map[string]any) any { return "precomputed" },
		Judge: func(c *Ctx, req map[string]any, impl any, orc map[string]any) []Finding {
			var fs []Finding
			for _, p := range normList(jsonRound(req["problems"])) {
				region := "rpc.outcome"
				ps := fmt.Sprint(p)
				switch {
				case strings.HasPrefix(ps, "hang"):
					region = "rpc.hang"
				case strings.Contains(ps, "answers request") || strings.Contains(ps, "of another request") || strings.Contains(ps, "own"):
					region = "rpc.pairing"
				case strings.Contains(ps, "carrying id") || strings.Contains(ps, "rewritten"):
					region = "rpc.id"
				case strings.Contains(ps, "outstanding at the backend"):
					region = "rpc.limit"
				case strings.Contains(ps, "used"):
					region = "rpc.unique"
				case strings.Contains(ps, "still owns"):
					region = "rpcws.unsubscribed.owner"
				case strings.Contains(ps, "server ids"):
					region = "rpcws.resubscribe.twice"
				}
				fs = append(fs, Finding{Kind: "violation", Region: region, Detail: ps})
			}
			if req["op"] == "rpchttp.run" && req["probe"] != nil {
				return fs
			}
			if req["op"] == "rpchttp.run" {
				if !same(normJ(jsonRound(req["implIssued"])), normJ(orc["issued"])) {
					fs = append(fs, Finding{Kind: "mismatch", Region: "rpchttp.model", Detail: fmt.Sprintf("issued ids / max in flight: impl=%v/%v model=%v/%v (model rejects: %v)", req["implIssued"], req["implMaxInflight"], orc["issued"], orc["maxInflight"], orc["rejected"])})
				}
				if orc["rejected"] != nil && !same(normJ(orc["rejected"]), normJ(json.Number("0"))) {
					fs = append(fs, Finding{Kind: "mismatch", Region: "rpchttp.model", Detail: fmt.Sprintf("the observed event order is not a run of the model: %v steps had no effect", orc["rejected"])})
				}
				return fs
			}
			for _, k := range []string{"implCalls:calls", "implSubs:subs", "implFrames:frames", "implTables:tables"} {
				kk := strings.Split(k, ":")
				if len(normList(jsonRound(req[kk[0]]))) == 0 && len(normList(orc[kk[1]])) == 0 && kk[1] == "frames" {
					continue
				}
				if !same(normJ(jsonRound(req[kk[0]])), normJ(orc[kk[1]])) {
					fs = append(fs, Finding{Kind: "mismatch", Region: "rpcws." + kk[1], Detail: kk[1] + " differ from model: impl=" + trunc(canon(jsonRound(req[kk[0]])), 400) + " model=" + trunc(canon(orc[kk[1]]), 400)})
				}
			}
			// the property on the model's own account of the run (Tier A through the specification predicates)
			for _, v := range normList(orc["specViolations"]) {
				fs = append(fs, Finding{Kind: "violation", Region: "rpcws.spec", Detail: fmt.Sprint(v)})
			}
			return fs
		}})
}

func jsonRound(v any) any {
	b, _ := json.Marshal(v)
	var out any
	d := json.NewDecoder(strings.NewReader(string(b)))
	d.UseNumber()
	_ = d.Decode(&out)
	return out
}

// ---------- schedule-dependent probes (real goroutines; outcomes judged directly against the property) ----------

// Subscribe racing with the reconnect callback: afterwards each configured subscription must own exactly one
// request / server id on the new connection.
func c18SubscribeReconnectRace(r *Rng, iters int) map[string]any {
	var problems []string
	double, total := 0, 0
	for it := 0; it < iters; it++ {
		ctx, cancel := context.WithCancel(context.Background())
		ft := newFakeWS()
		rc, reconnect := rpcbackend.VerifNewWS(ctx, ft, false)
		done := make(chan struct{})
		spin := r.Intn(3000)
		start := make(chan struct{})
		recDone := make(chan struct{})
		go func() {
			<-start
			_, _ = rc.Subscribe(ctx, "topic", 1)
			close(done)
		}()
		go func() {
			<-start
			x := 0
			for k := 0; k < spin; k++ {
				x += k * k
			}
			_ = x
			_ = reconnect(ctx)
			close(recDone)
		}()
		close(start)
		<-recDone
		ft.waitSent(1, time.Second)
		time.Sleep(50 * time.Microsecond)
		// answer every eth_subscribe frame that was written, oldest first, with distinct server ids
		n := ft.nSent()
		for k := 0; k < n; k++ {
			fr := ft.frame(k)
			id, _ := fr["id"].(string)
			ft.push(fmt.Sprintf(`{"jsonrpc":"2.0","id":"%s","result":"%d"}`, id, 500+k))
		}
		select {
		case <-done:
		case <-time.After(2 * time.Second):
			problems = append(problems, "hang: Subscribe racing with a reconnect never returned")
		}
		t := rpcbackend.VerifWSTables(rc)
		total++
		if len(t["active"]) > len(t["configured"]) {
			double++
			if double <= 3 {
				problems = append(problems, fmt.Sprintf("after Subscribe || reconnect one configured subscription owns %d server ids %v (eth_subscribe frames written: %d)", len(t["active"]), t["active"], n))
			}
		}
		cancel()
	}
	return map[string]any{"op": "rpcws.run", "reconnectEnabled": true, "ops": []any{}, "probe": "subscribe||reconnect", "iterations": total, "doubleActive": double, "problems": problems,
		"implCalls": map[string]any{}, "implSubs": map[string]any{}, "implFrames": []any{}, "implTables": map[string]any{"calls": 0, "pending": 0, "active": 0, "configured": 0}}
}

// concurrent callers with replies in arbitrary order, duplicates, unknown ids and a drop in the middle
func c18WsConcurrent(r *Rng, callers int, withDrop bool) map[string]any {
	ctx, cancel := context.WithCancel(context.Background())
	defer cancel()
	ft := newFakeWS()
	rc, reconnect := rpcbackend.VerifNewWS(ctx, ft, false)
	var problems []string
	var pmu sync.Mutex
	var wg sync.WaitGroup
	okN, errN := int64(0), int64(0)
	for c := 1; c <= callers; c++ {
		wg.Add(1)
		go func(c int) {
			defer wg.Done()
			var res int
			rpcErr := rc.CallRPC(ctx, &res, "m", c)
			if rpcErr == nil {
				atomic.AddInt64(&okN, 1)
				if res != c*13 {
					pmu.Lock()
					problems = append(problems, fmt.Sprintf("caller %d received result %d, which answers caller %d", c, res, res/13))
					pmu.Unlock()
				}
			} else {
				atomic.AddInt64(&errN, 1)
			}
		}(c)
	}
	// the responder: answers frames in shuffled order, sometimes twice, sometimes with junk in between
	answered := map[int]bool{}
	dropAt := -1
	if withDrop {
		dropAt = r.Intn(callers + 1)
	}
	handled := 0
	deadline := time.Now().Add(20 * time.Second)
	for handled < callers && time.Now().Before(deadline) {
		n := ft.nSent()
		var open []int
		for k := 0; k < n; k++ {
			if !answered[k] {
				open = append(open, k)
			}
		}
		if len(open) == 0 {
			time.Sleep(20 * time.Microsecond)
			continue
		}
		if handled == dropAt {
			dropAt = -1
			_ = reconnect(ctx) // everything written so far was on the old connection
			for _, k := range open {
				answered[k] = true
				handled++
			}
			continue
		}
		k := open[r.Intn(len(open))]
		fr := ft.frame(k)
		id, _ := fr["id"].(string)
		ps, _ := fr["params"].([]any)
		caller := int(ps[0].(float64))
		switch r.Intn(6) {
		case 0:
			ft.push(`{"jsonrpc":"2.0","id":"999999999","result":1}`)
		case 1:
			ft.push(`{"jsonrpc":"2.0","method":"eth_subscription","params":{"subscription":"77","result":1}}`)
		}
		ft.push(fmt.Sprintf(`{"jsonrpc":"2.0","id":"%s","result":%d}`, id, caller*13))
		if r.Intn(5) == 0 {
			ft.push(fmt.Sprintf(`{"jsonrpc":"2.0","id":"%s","result":%d}`, id, 1)) // duplicate with a different payload
		}
		answered[k] = true
		handled++
	}
	fin := make(chan struct{})
	go func() { wg.Wait(); close(fin) }()
	select {
	case <-fin:
	case <-time.After(5 * time.Second):
		problems = append(problems, fmt.Sprintf("hang: %d of %d concurrent callers never completed", callers-int(okN+errN), callers))
	}
	ids := map[string]int{}
	for k := 0; k < ft.nSent(); k++ {
		id, _ := ft.frame(k)["id"].(string)
		ids[id]++
		if ids[id] > 1 {
			problems = append(problems, "request id "+id+" used twice")
		}
	}
	return map[string]any{"op": "rpcws.run", "reconnectEnabled": true, "ops": []any{}, "probe": "concurrent-callers", "callers": callers, "ok": okN, "err": errN, "problems": problems,
		"implCalls": map[string]any{}, "implSubs": map[string]any{}, "implFrames": []any{}, "implTables": map[string]any{"calls": 0, "pending": 0, "active": 0, "configured": 0}}
}

// Unsubscribe racing with the reconnect callback: afterwards an unsubscribed subscription must own no server id.
func c18UnsubscribeReconnectRace(r *Rng, iters int) map[string]any {
	var problems []string
	stale, total := 0, 0
	for it := 0; it < iters; it++ {
		ctx, cancel := context.WithCancel(context.Background())
		ft := newFakeWS()
		rc, reconnect := rpcbackend.VerifNewWS(ctx, ft, false)
		subCh := make(chan rpcbackend.Subscription, 1)
		go func() {
			s, _ := rc.Subscribe(ctx, "topic", 1)
			subCh <- s
		}()
		ft.waitSent(1, time.Second)
		id0, _ := ft.frame(0)["id"].(string)
		ft.push(fmt.Sprintf(`{"jsonrpc":"2.0","id":"%s","result":"400"}`, id0))
		var s rpcbackend.Subscription
		select {
		case s = <-subCh:
		case <-time.After(2 * time.Second):
		}
		if s == nil {
			cancel()
			continue
		}
		go func() {
			for range s.Notifications() {
			}
		}()
		start := make(chan struct{})
		unsubDone, recDone := make(chan struct{}), make(chan struct{})
		spinA, spinB := r.Intn(2000), r.Intn(2000)
		go func() {
			<-start
			x := 0
			for k := 0; k < spinA; k++ {
				x += k
			}
			_ = x
			_ = s.Unsubscribe(ctx)
			close(unsubDone)
		}()
		go func() {
			<-start
			x := 0
			for k := 0; k < spinB; k++ {
				x += k
			}
			_ = x
			_ = reconnect(ctx)
			close(recDone)
		}()
		close(start)
		<-recDone
		// answer whatever was written after the first frame
		answered := 1
		deadline := time.Now().Add(2 * time.Second)
		for {
			for k := answered; k < ft.nSent(); k++ {
				fr := ft.frame(k)
				id, _ := fr["id"].(string)
				if fr["method"] == "eth_subscribe" {
					ft.push(fmt.Sprintf(`{"jsonrpc":"2.0","id":"%s","result":"%d"}`, id, 600+k))
				} else {
					ft.push(fmt.Sprintf(`{"jsonrpc":"2.0","id":"%s","result":true}`, id))
				}
				answered = k + 1
			}
			fin := false
			select {
			case <-unsubDone:
				fin = answered >= ft.nSent()
			default:
			}
			if fin || time.Now().After(deadline) {
				break
			}
			time.Sleep(20 * time.Microsecond)
		}
		select {
		case <-unsubDone:
		case <-time.After(2 * time.Second):
			problems = append(problems, "hang: Unsubscribe racing with a reconnect never returned")
		}
		time.Sleep(30 * time.Microsecond)
		t := rpcbackend.VerifWSTables(rc)
		total++
		if len(t["configured"]) == 0 && (len(t["active"]) > 0 || len(t["pending"]) > 0) {
			stale++
			if stale <= 3 {
				problems = append(problems, fmt.Sprintf("after Unsubscribe || reconnect the unsubscribed subscription still owns server ids %v / pending requests %v", t["active"], t["pending"]))
			}
		}
		cancel()
	}
	return map[string]any{"op": "rpcws.run", "reconnectEnabled": true, "ops": []any{}, "probe": "unsubscribe||reconnect", "iterations": total, "staleOwner": stale, "problems": problems,
		"implCalls": map[string]any{}, "implSubs": map[string]any{}, "implFrames": []any{}, "implTables": map[string]any{"calls": 0, "pending": 0, "active": 0, "configured": 0}}
}

// HTTP: callers cancelled while they wait for a slot must neither take nor free one
func c18HttpCancelScenario(r *Rng, limit int, queued int) map[string]any {
	var inflight, maxInflight int64
	release := make(chan struct{})
	srv := httptest.NewServer(http.HandlerFunc(func(w http.ResponseWriter, rq *http.Request) {
		b, _ := io.ReadAll(rq.Body)
		var req map[string]any
		_ = json.Unmarshal(b, &req)
		n := atomic.AddInt64(&inflight, 1)
		for {
			m := atomic.LoadInt64(&maxInflight)
			if n <= m || atomic.CompareAndSwapInt64(&maxInflight, m, n) {
				break
			}
		}
		<-release
		atomic.AddInt64(&inflight, -1)
		w.Header().Set("Content-Type", "application/json")
		_ = json.NewEncoder(w).Encode(map[string]any{"jsonrpc": "2.0", "id": req["id"], "result": 1})
	}))
	defer srv.Close()
	rc := rpcbackend.NewRPCClientWithOption(resty.New().SetBaseURL(srv.URL), rpcbackend.RPCClientOptions{MaxConcurrentRequest: int64(limit)})
	var problems []string
	var pmu sync.Mutex
	var wg sync.WaitGroup
	call := func(ctx context.Context, c int, expectCancel bool) {
		defer wg.Done()
		idText := fmt.Sprintf(`"q-%d"`, c)
		res, err := rc.SyncRequest(ctx, &rpcbackend.RPCRequest{Method: "m", ID: fftypes.JSONAnyPtr(idText)})
		pmu.Lock()
		defer pmu.Unlock()
		if res == nil || res.ID == nil || res.ID.String() != idText {
			problems = append(problems, fmt.Sprintf("caller %d (id %s) received a response carrying id %v", c, idText, res))
		}
		if expectCancel && err == nil {
			problems = append(problems, fmt.Sprintf("caller %d was cancelled while queued but its request went through", c))
		}
	}
	for c := 0; c < limit; c++ {
		wg.Add(1)
		go call(context.Background(), c, false)
	}
	deadline := time.Now().Add(3 * time.Second)
	for atomic.LoadInt64(&inflight) < int64(limit) && time.Now().Before(deadline) {
		time.Sleep(50 * time.Microsecond)
	}
	var cancels []context.CancelFunc
	for c := 0; c < queued; c++ {
		ctx, cancel := context.WithCancel(context.Background())
		cancels = append(cancels, cancel)
		wg.Add(1)
		go call(ctx, 100+c, true)
	}
	time.Sleep(2 * time.Millisecond)
	for _, cancel := range cancels {
		cancel()
		time.Sleep(time.Duration(r.Intn(200)) * time.Microsecond)
	}
	time.Sleep(2 * time.Millisecond)
	// more callers arrive after the cancellations: they must queue, all slots are still held
	for c := 0; c < 1+r.Intn(3); c++ {
		wg.Add(1)
		go call(context.Background(), 200+c, false)
	}
	time.Sleep(5 * time.Millisecond)
	if m := atomic.LoadInt64(&maxInflight); int(m) > limit {
		problems = append(problems, fmt.Sprintf("%d requests outstanding at the backend with a limit of %d (after cancelling %d queued callers)", m, limit, queued))
	}
	close(release)
	fin := make(chan struct{})
	go func() { wg.Wait(); close(fin) }()
	select {
	case <-fin:
	case <-time.After(5 * time.Second):
		problems = append(problems, "hang: HTTP callers did not complete after the backend answered (a slot was not released)")
	}
	if m := atomic.LoadInt64(&maxInflight); int(m) > limit {
		problems = append(problems, fmt.Sprintf("%d requests outstanding at the backend with a limit of %d", m, limit))
	}
	return map[string]any{"op": "rpchttp.run", "limit": limit, "ops": []any{}, "implMaxInflight": maxInflight, "implIssued": 0, "probe": "cancel-while-queued", "problems": problems}
}
