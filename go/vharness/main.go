//go:build verif

// vharness: the correspondence check. It is compiled *inside* the firefly-signer module (mapped to
// /repo/verifharness by `go build -overlay`, tag `verif`), calls the real code in-process, sends the same
// inputs over a JSON line protocol to the compiled Lean driver (`oracle`), and compares:
//
//	Tier B  implementation == Model   (the theorems speak about this code)
//	Tier A  implementation == Spec    (the property itself, judged by the Lean specification)
//
// All random choices derive from one splitmix64 state seeded with -seed.
package main

import (
	"context"
	"encoding/json"
	"flag"
	"fmt"
	"os"
	"os/exec"
	"sort"
	"sync"
	"sync/atomic"
	"time"
)

type Finding struct {
	Kind   string         `json:"kind"`   // "violation" (Tier A) | "mismatch" (Tier B)
	Region string         `json:"region"` // region key used to match known findings
	Detail string         `json:"detail"`
	Req    map[string]any `json:"req"`
	Impl   any            `json:"impl"`
	Oracle any            `json:"oracle"`
}

type Suite struct {
	Prop string
	Gen  func(c *Ctx)
	Impl func(req map[string]any) any
	// optional: implementation call that needs the oracle's answer (e.g. the specification encoding to decode)
	ImplO func(req map[string]any, orc map[string]any) any
	Judge func(c *Ctx, req map[string]any, impl any, orc map[string]any) []Finding
	// optional: structured shrinking candidates for a failing request
	Shrink func(req map[string]any) []map[string]any
	// Parallel: the implementation calls of this suite are pure functions of the request: after the sequential run
	// a sample of them is executed again from several goroutines at once and must give the same results
	// (a package-level scratch buffer / hasher shared without a lock makes them differ). ParKey strips what is
	// legitimately run-dependent (allocation counters) from a result before comparison.
	Parallel bool
	ParKey   func(impl any) any
}

type Ctx struct {
	Tier string
	Seed uint64
	R    *Rng
	reqs []map[string]any
	// Ask sends one follow-up request to the Lean driver (e.g. the property's verdict on the implementation's own
	// output when it differs from the model's); nil result when the driver is not available
	Ask     func(req map[string]any) map[string]any
	Tags    map[string]int
	Ops     map[string]int
	Notes   map[string]any
	fromCor int
}

func (c *Ctx) Thorough() bool { return c.Tier == "thorough" }

// Add queues one request; tags feed the input-distribution histogram in the evidence.
func (c *Ctx) Add(req map[string]any, tags ...string) {
	req["i"] = len(c.reqs)
	c.reqs = append(c.reqs, req)
	for _, t := range tags {
		c.Tags[t]++
	}
	if op, ok := req["op"].(string); ok {
		c.Ops[op]++
	}
}

type Result struct {
	Property   string         `json:"property"`
	Tier       string         `json:"tier"`
	Seed       uint64         `json:"seed"`
	Cases      int            `json:"cases"`
	CorpusN    int            `json:"corpus_cases"`
	Distinct   int            `json:"distinct"`
	Accepted   int            `json:"impl_ok"`
	Rejected   int            `json:"impl_err"`
	Panicked   int            `json:"impl_panic"`
	Ops        map[string]int `json:"ops"`
	Tags       map[string]int `json:"tags"`
	Findings   []Finding      `json:"findings"`
	NFindings  int            `json:"n_findings"`
	PerRegion  map[string]int `json:"findings_per_region,omitempty"`
	Samples    []any          `json:"samples"`
	Notes      map[string]any `json:"notes,omitempty"`
	WallS      float64        `json:"wall_s"`
	HarnessErr string         `json:"harness_error,omitempty"`
}

var suites = map[string]*Suite{}

func register(s *Suite) { suites[s.Prop] = s }

func main() {
	if arg := os.Getenv("VERIF_C17_STRESS"); arg != "" {
		c17StressMain(arg) // the -race child of the C17 stress runs
		return
	}
	prop := flag.String("prop", "", "property id")
	tier := flag.String("tier", "quick", "quick|thorough")
	seed := flag.Uint64("seed", 1, "PRNG seed")
	oraclePath := flag.String("oracle", "/verif/lean/.lake/build/bin/oracle", "Lean driver executable")
	out := flag.String("out", "", "result JSON path")
	corpus := flag.String("corpus", "", "corpus directory (files of one JSON request per line); runs first")
	replay := flag.String("replay", "", "replay file: JSON with a `req` (or list `reqs`)")
	flag.Parse()
	s, ok := suites[*prop]
	if !ok {
		fmt.Fprintln(os.Stderr, "unknown property", *prop)
		os.Exit(2)
	}
	if os.Getenv("VERIF_CHILD") == "1" {
		// isolated single-case mode: request on stdin, canonical implementation result on stdout
		var req map[string]any
		d := json.NewDecoder(os.Stdin)
		d.UseNumber()
		if err := d.Decode(&req); err != nil {
			os.Exit(2)
		}
		delete(req, "isolate")
		out := runImpl(s, req)
		b, _ := json.Marshal(map[string]any{"r": out})
		os.Stdout.Write(b)
		return
	}
	selfProp = *prop
	start := time.Now()
	ctx := &Ctx{Tier: *tier, Seed: *seed, R: NewRng(*seed), Tags: map[string]int{}, Ops: map[string]int{}, Notes: map[string]any{}}
	if *replay != "" {
		for _, r := range loadReplay(*replay) {
			ctx.Add(r, "replay")
		}
	} else {
		if *corpus != "" {
			for _, r := range loadCorpus(*corpus) {
				ctx.Add(r, "corpus")
			}
			ctx.fromCor = len(ctx.reqs)
		}
		s.Gen(ctx)
	}
	if dump := os.Getenv("VERIF_DUMP"); dump != "" {
		f, _ := os.Create(dump)
		for _, r := range ctx.reqs {
			b, _ := json.Marshal(r)
			f.Write(b)
			f.Write([]byte("\n"))
		}
		f.Close()
	}
	res := &Result{Property: *prop, Tier: *tier, Seed: *seed, Ops: ctx.Ops, Tags: ctx.Tags, Notes: ctx.Notes, CorpusN: ctx.fromCor}
	orc, err := StartOracle(*oraclePath)
	if err != nil {
		res.HarnessErr = "oracle start: " + err.Error()
		writeResult(*out, res)
		os.Exit(3)
	}
	defer orc.Close()
	ctx.Ask = func(q map[string]any) map[string]any {
		q["i"] = 0
		rs, aerr := orc.Batch([]map[string]any{q})
		if aerr != nil || len(rs) != 1 {
			return nil
		}
		return rs[0]
	}
	resps, err := orc.Batch(ctx.reqs)
	if err != nil {
		res.HarnessErr = "oracle: " + err.Error()
		writeResult(*out, res)
		os.Exit(3)
	}
	seen := map[string]bool{}
	perRegion := map[string]int{}
	seqImpl := make([]string, len(ctx.reqs))
	for i, req := range ctx.reqs {
		impl := runImplO(s, req, resps[i])
		if s.Parallel && req["isolate"] != true {
			k := impl
			if s.ParKey != nil {
				k = s.ParKey(impl)
			}
			seqImpl[i] = canon(k)
		}
		switch implKind(impl) {
		case "ok":
			res.Accepted++
		case "err":
			res.Rejected++
		case "panic":
			res.Panicked++
		}
		key := canon(stripI(req))
		if !seen[key] {
			seen[key] = true
		}
		fs := s.Judge(ctx, req, impl, resps[i])
		for _, f := range fs {
			f.Req = stripI(req)
			if f.Impl == nil {
				f.Impl = impl
			}
			if f.Oracle == nil {
				f.Oracle = resps[i]
			}
			res.NFindings++
			rk := f.Kind + "/" + f.Region
			perRegion[rk]++
			if perRegion[rk] <= 5 && len(res.Findings) < 400 {
				if s.Shrink != nil {
					f = shrinkFinding(s, ctx, orc, f)
				}
				res.Findings = append(res.Findings, f)
			}
		}
		if len(res.Samples) < 6 && (i%(len(ctx.reqs)/6+1) == 0) {
			res.Samples = append(res.Samples, map[string]any{"req": stripI(req), "impl": impl, "oracle": resps[i]})
		}
	}
	if s.Parallel && os.Getenv("VERIF_CHILD") != "1" {
		parallelRerun(s, ctx, resps, seqImpl, res, perRegion)
	}
	if len(isolatedFailures.details) > 0 {
		ctx.Notes["isolated_child_failures"] = isolatedFailures.details
		ctx.Notes["isolated_child_recovered_on_retry"] = isolatedFailures.recovered
	}
	res.PerRegion = perRegion
	res.Cases = len(ctx.reqs)
	res.Distinct = len(seen)
	res.WallS = time.Since(start).Seconds()
	writeResult(*out, res)
	// human-readable summary
	fmt.Printf("vharness %s tier=%s seed=%d cases=%d distinct=%d ok=%d err=%d panic=%d findings=%d wall=%.1fs\n",
		*prop, *tier, *seed, res.Cases, res.Distinct, res.Accepted, res.Rejected, res.Panicked, res.NFindings, res.WallS)
	keys := make([]string, 0, len(ctx.Tags))
	for k := range ctx.Tags {
		keys = append(keys, k)
	}
	sort.Strings(keys)
	for _, f := range res.Findings {
		if len(f.Detail) > 300 {
			f.Detail = f.Detail[:300]
		}
		fmt.Printf("FINDING kind=%s region=%s %s req=%s\n", f.Kind, f.Region, f.Detail, trunc(canon(f.Req), 400))
	}
	if res.NFindings > 0 {
		os.Exit(1)
	}
}

// parallelRerun executes a sample of the (pure) implementation calls again from 8 goroutines at once. Every goroutine
// walks the whole sample, starting at a different offset, so that the same entry points run concurrently on different
// inputs; each result must equal the one obtained sequentially.
func parallelRerun(s *Suite, ctx *Ctx, resps []map[string]any, seq []string, res *Result, perRegion map[string]int) {
	var idx []int
	limit := 2500
	if ctx.Tier == "thorough" {
		limit = 20000
	}
	stride := len(ctx.reqs)/limit + 1
	for i := 0; i < len(ctx.reqs); i += stride {
		if seq[i] != "" && ctx.reqs[i]["isolate"] != true {
			idx = append(idx, i)
		}
	}
	if len(idx) < 2 {
		return
	}
	const G = 8
	type diff struct {
		i   int
		got string
	}
	var mu sync.Mutex
	var diffs []diff
	var wg sync.WaitGroup
	rounds := 3
	if len(idx) > 10000 {
		rounds = 1
	}
	for g := 0; g < G; g++ {
		wg.Add(1)
		go func(g int) {
			defer wg.Done()
			off := g * len(idx) / G
			for n := 0; n < rounds*len(idx); n++ {
				i := idx[(off+n)%len(idx)]
				impl := runImplO(s, ctx.reqs[i], resps[i])
				k := impl
				if s.ParKey != nil && impl != "panic" {
					k = s.ParKey(impl)
				}
				if c := canon(k); c != seq[i] {
					mu.Lock()
					if len(diffs) < 50 {
						diffs = append(diffs, diff{i, c})
					}
					mu.Unlock()
				}
			}
		}(g)
	}
	wg.Wait()
	// hot phase: every goroutine hammers the same few cases - those with the longest sequential results, i.e. the calls
	// that got furthest into the code (a successful recovery, a full encoding) rather than failing at the first check -
	// for a fixed time, so that two calls are inside the same function at the same moment thousands of times over
	hot := append([]int{}, idx...)
	sort.SliceStable(hot, func(a, b int) bool { return len(seq[hot[a]]) > len(seq[hot[b]]) })
	if len(hot) > 48 {
		hot = hot[:48]
	}
	budget := 2 * time.Second
	if ctx.Tier == "thorough" {
		budget = 10 * time.Second
	}
	deadline := time.Now().Add(budget)
	var hotCalls int64
	for g := 0; g < G; g++ {
		wg.Add(1)
		go func(g int) {
			defer wg.Done()
			for n := 0; time.Now().Before(deadline); n++ {
				i := hot[(g*5+n)%len(hot)]
				impl := runImplO(s, ctx.reqs[i], resps[i])
				k := impl
				if s.ParKey != nil && impl != "panic" {
					k = s.ParKey(impl)
				}
				atomic.AddInt64(&hotCalls, 1)
				if c := canon(k); c != seq[i] {
					mu.Lock()
					if len(diffs) < 50 {
						diffs = append(diffs, diff{i, c})
					}
					mu.Unlock()
				}
			}
		}(g)
	}
	wg.Wait()
	ctx.Notes["parallel_hot_calls"] = hotCalls
	ctx.Notes["parallel_rerun_cases"] = len(idx)
	ctx.Notes["parallel_rerun_goroutines"] = G
	for _, d := range diffs {
		f := Finding{Kind: "violation", Region: "concurrent-use", Detail: "the result for this input is different (or a panic) when other calls run concurrently: sequential=" + trunc(seq[d.i], 200) + " concurrent=" + trunc(d.got, 200),
			Req: stripI(ctx.reqs[d.i]), Oracle: resps[d.i]}
		res.NFindings++
		perRegion["violation/concurrent-use"]++
		if perRegion["violation/concurrent-use"] <= 5 {
			res.Findings = append(res.Findings, f)
		}
	}
}

func trunc(s string, n int) string {
	if len(s) > n {
		return s[:n] + "…"
	}
	return s
}

func shrinkFinding(s *Suite, ctx *Ctx, orc *Oracle, f Finding) Finding {
	cur := f
	for round := 0; round < 200; round++ {
		improved := false
		for _, cand := range s.Shrink(cur.Req) {
			cand["i"] = 0
			rs, err := orc.Batch([]map[string]any{cand})
			if err != nil {
				return cur
			}
			impl := runImplO(s, cand, rs[0])
			fs := s.Judge(ctx, cand, impl, rs[0])
			for _, nf := range fs {
				if nf.Kind == cur.Kind && nf.Region == cur.Region {
					nf.Req = stripI(cand)
					if nf.Impl == nil {
						nf.Impl = impl
					}
					if nf.Oracle == nil {
						nf.Oracle = rs[0]
					}
					cur = nf
					improved = true
					break
				}
			}
			if improved {
				break
			}
		}
		if !improved {
			break
		}
	}
	return cur
}

func stripI(req map[string]any) map[string]any {
	o := map[string]any{}
	for k, v := range req {
		if k != "i" {
			o[k] = v
		}
	}
	return o
}

func writeResult(path string, r *Result) {
	if path == "" {
		return
	}
	b, _ := json.MarshalIndent(r, "", " ")
	_ = os.WriteFile(path, b, 0o644)
}

// runImpl calls the implementation under recover(); a Go panic becomes the canonical value "panic".
func runImpl(s *Suite, req map[string]any) (out any) {
	defer func() {
		if r := recover(); r != nil {
			out = "panic"
		}
	}()
	return s.Impl(req)
}

var selfProp string

// runIsolated runs one case in a child process (cases that may exhaust memory or crash the process). A child that
// cannot be run to completion is tried a second time: a decoder that really blows up on the input does so every time,
// whereas a child lost to the machine (no process slot, a stall under load) comes back. What went wrong is kept for the
// evidence (`isolated_child_failures`).
var isolatedFailures struct {
	sync.Mutex
	recovered int
	details   []string
}

func runIsolated(req map[string]any) any {
	for attempt := 0; attempt < 2; attempt++ {
		r, why := runIsolatedOnce(req)
		if why == "" {
			if attempt > 0 {
				isolatedFailures.Lock()
				isolatedFailures.recovered++
				isolatedFailures.Unlock()
			}
			return r
		}
		isolatedFailures.Lock()
		if len(isolatedFailures.details) < 10 {
			isolatedFailures.details = append(isolatedFailures.details, fmt.Sprintf("attempt %d: %s", attempt+1, why))
		}
		isolatedFailures.Unlock()
		time.Sleep(time.Second)
	}
	return "crash"
}

func runIsolatedOnce(req map[string]any) (any, string) {
	exe, err := os.Executable()
	if err != nil {
		return nil, "os.Executable: " + err.Error()
	}
	b, _ := json.Marshal(req)
	ctx, cancel := context.WithTimeout(context.Background(), 120*time.Second)
	defer cancel()
	start := time.Now()
	cmd := exec.CommandContext(ctx, exe, "-prop", selfProp)
	cmd.Env = append(os.Environ(), "VERIF_CHILD=1", "GOMEMLIMIT=2GiB")
	cmd.Stdin = bytesReader(b)
	outb, err := cmd.Output()
	if err != nil {
		tail := ""
		if ee, isExit := err.(*exec.ExitError); isExit {
			tail = trunc(string(ee.Stderr), 300)
		}
		return nil, fmt.Sprintf("%v after %.1fs %s", err, time.Since(start).Seconds(), tail)
	}
	var m map[string]any
	d := json.NewDecoder(bytesReader(outb))
	d.UseNumber()
	if d.Decode(&m) != nil {
		return nil, "child output is not JSON: " + trunc(string(outb), 200)
	}
	return m["r"], ""
}

func runImplO(s *Suite, req map[string]any, orc map[string]any) (out any) {
	if req["isolate"] == true && os.Getenv("VERIF_CHILD") != "1" {
		return runIsolated(req)
	}
	if s.ImplO == nil {
		return runImpl(s, req)
	}
	defer func() {
		if r := recover(); r != nil {
			out = "panic"
		}
	}()
	return s.ImplO(req, orc)
}

func implKind(v any) string {
	switch t := v.(type) {
	case string:
		if t == "err" || t == "panic" {
			return t
		}
	case map[string]any:
		if _, ok := t["ok"]; ok {
			return "ok"
		}
	}
	return "other"
}

// canon renders any JSON-able value canonically (object keys sorted by encoding/json).
func canon(v any) string {
	b, err := json.Marshal(v)
	if err != nil {
		return fmt.Sprintf("!marshal:%v", err)
	}
	var x any
	d := json.NewDecoder(bytesReader(b))
	d.UseNumber()
	if err := d.Decode(&x); err != nil {
		return string(b)
	}
	b2, _ := json.Marshal(x)
	return string(b2)
}

func same(a, b any) bool { return canon(a) == canon(b) }

func ok(v any) map[string]any { return map[string]any{"ok": v} }
