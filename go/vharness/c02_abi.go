//go:build verif

package main

import (
	"encoding/json"
	"fmt"
	"math"
	"math/big"
	"runtime"
	"strings"

	"github.com/hyperledger/firefly-signer/pkg/abi"
	"github.com/hyperledger/firefly-signer/pkg/ethtypes"
)

func genParamList(r *Rng, o tyOpts, depth int) []*absTy {
	if r.Intn(5) == 0 {
		sh := namedShapes(r)
		return sh[r.Intn(len(sh))]
	}
	n := 1 + r.Intn(4)
	var ts []*absTy
	for i := 0; i < n; i++ {
		t := genTy(r, depth, o)
		t.Name = fmt.Sprintf("p%d", i)
		if o.unnamed && r.Intn(4) == 0 {
			t.Name = ""
		}
		ts = append(ts, t)
	}
	return ts
}

func topTuple(ts []*absTy) *absTy { return &absTy{Kind: "tuple", Comps: ts} }

var allCfgs = func() []map[string]any {
	var out []map[string]any
	for _, m := range []string{"objects", "flat", "self"} {
		for _, i := range []string{"base10", "hex", "number", "iffits"} {
			for _, b := range []string{"hex", "hex0x", "base64"} {
				for _, a := range []string{"none", "hex0x", "plain", "checksum"} {
					out = append(out, map[string]any{"mode": m, "ints": i, "bytes": b, "addr": a})
				}
			}
		}
	}
	return out
}()

func serializerFor(cfg map[string]any) *abi.Serializer {
	s := abi.NewSerializer()
	switch cfg["mode"] {
	case "flat":
		s.SetFormattingMode(abi.FormatAsFlatArrays)
	case "self":
		s.SetFormattingMode(abi.FormatAsSelfDescribingArrays)
	default:
		s.SetFormattingMode(abi.FormatAsObjects)
	}
	switch cfg["ints"] {
	case "hex":
		s.SetIntSerializer(abi.HexIntSerializer0xPrefix)
	case "number":
		s.SetIntSerializer(abi.JSONNumberIntSerializer)
	case "iffits":
		s.SetIntSerializer(abi.NumberIfFitsOrBase10StringIntSerializer)
	default:
		s.SetIntSerializer(abi.Base10StringIntSerializer)
	}
	switch cfg["bytes"] {
	case "hex0x":
		s.SetByteSerializer(abi.HexByteSerializer0xPrefix)
	case "base64":
		s.SetByteSerializer(abi.Base64ByteSerializer)
	default:
		s.SetByteSerializer(abi.HexByteSerializer)
	}
	switch cfg["addr"] {
	case "hex0x":
		s.SetAddressSerializer(abi.HexAddrSerializer0xPrefix)
	case "plain":
		s.SetAddressSerializer(abi.HexAddrSerializerPlain)
	case "checksum":
		s.SetAddressSerializer(abi.ChecksumAddrSerializer)
	}
	return s
}

func hasAddrBase64(cfg map[string]any) bool { return cfg["bytes"] == "base64" }

// blandParams: the same parameter tree with every elementary leaf typed bool (array suffixes kept)
func blandParams(ps any) any {
	l, _ := ps.([]any)
	var out []any
	for _, p := range l {
		m, _ := p.(map[string]any)
		n := map[string]any{}
		for k, v := range m {
			n[k] = v
		}
		t, _ := m["type"].(string)
		if strings.HasPrefix(t, "tuple") {
			n["components"] = blandParams(m["components"])
		} else {
			suffix := ""
			if i := strings.Index(t, "["); i >= 0 {
				suffix = t[i:]
			}
			n["type"] = "bool" + suffix
		}
		out = append(out, n)
	}
	if out == nil {
		return []any{}
	}
	return out
}

// retypeParams writes the type strings of `ps` into the existing parameter objects (same shape)
func retypeParams(pa abi.ParameterArray, ps any) {
	l, _ := ps.([]any)
	for i, p := range l {
		if i >= len(pa) {
			return
		}
		m, _ := p.(map[string]any)
		if t, isStr := m["type"].(string); isStr {
			pa[i].Type = t
		}
		retypeParams(pa[i].Components, m["components"])
	}
}

// rawEntryImpl: the call-data / event / revert-data entry points on arbitrary bytes (used by C11 and C12)
func rawEntryImpl(req map[string]any) any {
	data := unhx(str(req, "data"))
	if req["nilData"] == true {
		data = nil
	}
	switch str(req, "kind") {
	case "calldata":
		cv, err := entryFromJSON(req["entry"]).DecodeCallData(data)
		if err != nil {
			return map[string]any{"dec": "err"}
		}
		return map[string]any{"dec": ok(cvToJSON(cv))}
	case "event":
		var topics []ethtypes.HexBytes0xPrefix
		for _, t := range req["topics"].([]any) {
			topics = append(topics, unhx(t.(string)))
		}
		cv, err := entryFromJSON(req["entry"]).DecodeEventData(topics, data)
		if err != nil {
			return map[string]any{"dec": "err"}
		}
		return map[string]any{"dec": ok(cvToJSON(cv))}
	default:
		var a abi.ABI
		b, _ := json.Marshal(req["abi"])
		_ = json.Unmarshal(b, &a)
		_, _ = a.ErrorString(data)
		e, cv, found := a.ParseError(data)
		if !found {
			return map[string]any{"dec": nil}
		}
		idx := 0
		for i, x := range a {
			if x == e {
				idx = i + 1
			}
		}
		return map[string]any{"dec": map[string]any{"index": idx, "cv": cvToJSON(cv)}}
	}
}

func rawEntryJudge(req map[string]any, impl any, orc map[string]any) []Finding {
	if impl == "panic" {
		return []Finding{{Kind: "violation", Region: "abi.rawentry." + str(req, "kind") + ".panic", Detail: "decoding arbitrary bytes through the " + str(req, "kind") + " entry point panicked"}}
	}
	m, _ := impl.(map[string]any)
	if !same(normJ(m["dec"]), normJ(orc["model"])) {
		return []Finding{{Kind: "mismatch", Region: "abi.rawentry." + str(req, "kind"), Detail: "decoding arbitrary bytes through the " + str(req, "kind") + " entry point differs from model: impl=" + trunc(canon(m["dec"]), 200) + " model=" + trunc(canon(orc["model"]), 200)}}
	}
	return nil
}

func init() {
	// ------------------------------------------------------------------ C02
	register(&Suite{
		Prop:     "C02",
		Parallel: true,
		Gen: func(c *Ctx) {
			r := c.R
			n := 1200
			if c.Thorough() {
				n = 40000
			}
			o := tyOpts{maxArr: 3, unnamed: true}
			for i := 0; i < n; i++ {
				ts := genParamList(r, o, 1+r.Intn(4))
				top := topTuple(ts)
				v := genVal(r, top, 100)
				style := Pick(r, []string{"json", "json", "go"})
				in := renderVal(r, top, v, style, true)
				req := map[string]any{"op": "abi.encode", "params": paramsJSON(ts), "expect": v, "style": style}
				if style == "json" {
					// go through real JSON text: the description is derived from what the decoder produces
					txt, _ := json.Marshal(in)
					var tree any
					d := json.NewDecoder(strings.NewReader(string(txt)))
					d.UseNumber()
					_ = d.Decode(&tree)
					req["jsonText"] = string(txt)
					req["input"] = extFromGo(tree)
				} else {
					req["input"] = extFromGo(in)
				}
				c.Add(req, "valid."+style)
				if i%5 == 0 {
					// the same case on a definition that was validated and used with other types first
					h := map[string]any{}
					for k, v := range req {
						h[k] = v
					}
					h["history"] = true
					c.Add(h, "valid.history")
				}
			}
			// a width narrowed after first use: the narrower range applies (at any nesting depth)
			for i := 0; i < 30; i++ {
				leaf := &absTy{Kind: "uint", M: 8, Name: "x"}
				var t *absTy = leaf
				for d := r.Intn(3); d >= 0; d-- {
					t = &absTy{Kind: "tuple", Name: "t", Comps: []*absTy{{Kind: "bool", Name: "b"}, t}}
				}
				wrap := func(v any) any {
					out := v
					for tt := t; tt.Kind == "tuple"; tt = tt.Comps[1] {
						_ = tt
					}
					depth := 0
					for tt := t; tt.Kind == "tuple"; tt = tt.Comps[1] {
						depth++
					}
					for d := 0; d < depth; d++ {
						out = []any{true, out}
					}
					return []any{out}
				}
				c.Add(map[string]any{"op": "abi.encode", "params": paramsJSON([]*absTy{t}), "expect": "reject", "style": "go", "history": true, "input": extFromGo(wrap(300))}, "reject.history")
			}
			// range boundaries for every width, each in several representations; out-of-range neighbours rejected
			for m := 8; m <= 256; m += 8 {
				for _, kind := range []string{"uint", "int"} {
					t := &absTy{Kind: kind, M: m, Name: "v"}
					lo, hi := intBounds(t)
					cands := []struct {
						z  *big.Int
						ok bool
					}{{lo, true}, {hi, true}, {big.NewInt(0), true}, {new(big.Int).Sub(lo, big.NewInt(1)), false}, {new(big.Int).Add(hi, big.NewInt(1)), false},
						{pow2(uint(m)), false}, {new(big.Int).Neg(pow2(uint(m))), false}, {new(big.Int).Add(pow2(256), big.NewInt(5)), false}}
					if kind == "int" {
						cands = append(cands, struct {
							z  *big.Int
							ok bool
						}{big.NewInt(-1), true})
					}
					// out of range well beyond the neighbours: multiples of 2^(m-1) and 2^m of either sign (values whose
					// low bits look like a boundary value's), and random magnitudes beyond either end
					type cand = struct {
						z  *big.Int
						ok bool
					}
					for _, k := range []int64{2, 3, 4, 5, 7, 255, 256, 257} {
						for _, sh := range []uint{uint(m - 1), uint(m)} {
							for _, sg := range []int64{1, -1} {
								z := new(big.Int).Mul(big.NewInt(k*sg), pow2(sh))
								if z.Cmp(lo) >= 0 && z.Cmp(hi) <= 0 {
									continue
								}
								cands = append(cands, cand{z, false})
							}
						}
					}
					for q := 0; q < 4; q++ {
						z := new(big.Int).SetBytes(r.Bytes(1 + r.Intn(9)))
						z.Add(z, big.NewInt(1))
						if r.Bool() {
							z.Lsh(z, uint(r.Intn(m)))
						}
						if r.Bool() {
							z.Add(z, hi)
						} else {
							z.Sub(lo, z)
						}
						cands = append(cands, cand{z, false})
					}
					for _, cd := range cands {
						reps := 2
						if c.Thorough() {
							reps = 8
						}
						for k := 0; k < reps; k++ {
							style := Pick(r, []string{"json", "go"})
							in := []any{renderInt(r, cd.z, style)}
							req := map[string]any{"op": "abi.encode", "params": paramsJSON([]*absTy{t}), "style": style}
							if cd.ok {
								req["expect"] = []any{map[string]any{"i": cd.z.String()}}
							} else {
								req["expect"] = "reject"
							}
							req["input"] = extFromGo(in)
							c.Add(req, "boundary."+kind)
						}
					}
				}
			}
			// non-integral / malformed inputs for integer types, wrong arity
			u256 := &absTy{Kind: "uint", M: 256, Name: "v"}
			for _, bad := range []any{"1.5", json.Number("1.5"), json.Number("1e-1"), "0.1e0", json.Number("2.5e0"), "abc", "", "0x", 1.5, float32(0.25), 2.75, -0.5,
				"1." + strings.Repeat("0", 82) + "1", nil, true, []any{}, map[string]any{}} {
				c.Add(map[string]any{"op": "abi.encode", "params": paramsJSON([]*absTy{u256}), "expect": "reject", "style": "go", "input": extFromGo([]any{bad})}, "reject.nonintegral")
			}
			for _, good := range []struct {
				v any
				z string
			}{{1e19, "10000000000000000000"}, {float64(1 << 53), "9007199254740992"}, {1e19 + 2048, "10000000000000002048"}, {float32(16777216), "16777216"}, {json.Number("1e19"), "10000000000000000000"}, {"1e3", "1000"}, {json.Number("12.50e1"), "125"}} {
				c.Add(map[string]any{"op": "abi.encode", "params": paramsJSON([]*absTy{u256}), "expect": []any{map[string]any{"i": good.z}}, "style": "go", "input": extFromGo([]any{good.v})}, "accept.floatlike")
			}
			// every Go integer kind at the ends of its own range, into types that hold it and types that do not
			for _, tt := range []*absTy{{Kind: "int", M: 64, Name: "v"}, {Kind: "int", M: 72, Name: "v"}, {Kind: "int", M: 256, Name: "v"}, {Kind: "uint", M: 64, Name: "v"}, {Kind: "uint", M: 256, Name: "v"}, {Kind: "int", M: 32, Name: "v"}, {Kind: "uint", M: 8, Name: "v"}, {Kind: "int", M: 8, Name: "v"}, {Kind: "uint", M: 16, Name: "v"}} {
				lo, hi := intBounds(tt)
				for _, in := range []any{
					int64(math.MinInt64), int64(math.MinInt64 + 1), int64(-1), int64(0), int64(math.MaxInt64), int64(math.MaxInt32) + 1,
					int(math.MinInt64), int(-1), int(math.MaxInt64), int(255), int(256),
					int32(math.MinInt32), int32(-1), int32(math.MaxInt32), int32(127), int32(128),
					int16(math.MinInt16), int16(-1), int16(math.MaxInt16), int16(255),
					int8(math.MinInt8), int8(-1), int8(math.MaxInt8),
					uint64(0), uint64(math.MaxInt64), uint64(1 << 63), uint64(1<<63 + 1), uint64(math.MaxUint64), uint64(math.MaxUint64 - 1), uint64(math.MaxUint32) + 1,
					uint(math.MaxInt64), uint(1 << 63), uint(math.MaxUint64), uint(255), uint(256),
					uint32(0), uint32(1 << 31), uint32(math.MaxUint32), uint32(65535), uint32(65536),
					uint16(1 << 15), uint16(math.MaxUint16), uint16(255), uint16(256),
					uint8(0), uint8(127), uint8(128), uint8(255),
				} {
					ext := extFromGo([]any{in})
					z, _ := new(big.Int).SetString(ext["v"].([]any)[0].(map[string]any)["v"].(string), 10)
					req := map[string]any{"op": "abi.encode", "params": paramsJSON([]*absTy{tt}), "style": "go", "input": ext}
					if z.Cmp(lo) >= 0 && z.Cmp(hi) <= 0 {
						req["expect"] = []any{map[string]any{"i": z.String()}}
					} else {
						req["expect"] = "reject"
					}
					c.Add(req, "boundary.gokind")
				}
			}
			// Go float64 / float32 / *big.Float inputs at powers of two around every integer boundary
			for _, tt := range []*absTy{{Kind: "int", M: 64, Name: "v"}, {Kind: "int", M: 72, Name: "v"}, {Kind: "int", M: 256, Name: "v"}, {Kind: "uint", M: 64, Name: "v"}, {Kind: "uint", M: 256, Name: "v"}, {Kind: "int", M: 32, Name: "v"}, {Kind: "uint", M: 8, Name: "v"}} {
				lo, hi := intBounds(tt)
				for _, k := range []uint{0, 7, 8, 31, 32, 52, 53, 62, 63, 64, 65, 71, 127, 255, 256} {
					for _, neg := range []bool{false, true} {
						for _, delta := range []int64{0, -1} {
							z := new(big.Int).Add(pow2(k), big.NewInt(delta))
							if neg {
								z.Neg(z)
							}
							f, acc := new(big.Float).SetInt(z).Float64()
							if acc != big.Exact {
								continue
							}
							var inputs []any
							inputs = append(inputs, f, new(big.Float).SetPrec(300).SetInt(z))
							if f32 := float32(f); float64(f32) == f {
								inputs = append(inputs, f32)
							}
							for _, in := range inputs {
								req := map[string]any{"op": "abi.encode", "params": paramsJSON([]*absTy{tt}), "style": "go", "input": extFromGo([]any{in})}
								if z.Cmp(lo) >= 0 && z.Cmp(hi) <= 0 {
									req["expect"] = []any{map[string]any{"i": z.String()}}
								} else {
									req["expect"] = "reject"
								}
								c.Add(req, "boundary.float")
							}
						}
					}
				}
			}
			farr := &absTy{Kind: "farr", Len: 2, Child: &absTy{Kind: "uint", M: 8}, Name: "a"}
			tup := &absTy{Kind: "tuple", Name: "t", Comps: []*absTy{{Kind: "uint", M: 8, Name: "x"}, {Kind: "bool", Name: "y"}}}
			for _, in := range []any{[]any{[]any{"1"}}, []any{[]any{"1", "2", "3"}}, []any{[]any{}}, []any{"1"}, []any{map[string]any{"0": "1"}}} {
				c.Add(map[string]any{"op": "abi.encode", "params": paramsJSON([]*absTy{farr}), "expect": "reject", "style": "json", "input": extFromGo(in)}, "reject.arity")
			}
			for _, in := range []any{[]any{[]any{"1"}}, []any{[]any{"1", true, "3"}}, []any{map[string]any{"x": "1"}}, []any{"x"}, []any{}, []any{[]any{"1", true}, "extra"}} {
				c.Add(map[string]any{"op": "abi.encode", "params": paramsJSON([]*absTy{tup}), "expect": "reject", "style": "json", "input": extFromGo(in)}, "reject.arity")
			}
			// fixed-point (known finding region): decimal literals with at most N fractional digits
			nf := 150
			if c.Thorough() {
				nf = 3000
			}
			for i := 0; i < nf; i++ {
				signed := r.Bool()
				m := 8 * (1 + r.Intn(32))
				nn := 1 + r.Intn(18)
				kind := "ufixed"
				if signed {
					kind = "fixed"
				}
				t := &absTy{Kind: kind, M: m, N: nn, Name: "f"}
				// scaled integer value within range, as decimal literal with <= N fractional digits
				it := &absTy{Kind: "uint", M: m}
				if signed {
					it.Kind = "int"
				}
				lo, hi := intBounds(it)
				z := genIntIn(r, lo, hi)
				if r.Intn(3) == 0 {
					z = big.NewInt(int64(r.Intn(4000) - 2000))
					if !signed {
						z.Abs(z)
					}
					if z.Cmp(lo) < 0 || z.Cmp(hi) > 0 {
						z = big.NewInt(1)
					}
				}
				abs := new(big.Int).Abs(z).String()
				for len(abs) <= nn {
					abs = "0" + abs
				}
				lit := abs[:len(abs)-nn] + "." + abs[len(abs)-nn:]
				if z.Sign() < 0 {
					lit = "-" + lit
				}
				itn := *it
				itn.Name = "f"
				c.Add(map[string]any{"op": "abi.encode", "params": paramsJSON([]*absTy{t}), "expectParams": paramsJSON([]*absTy{&itn}), "expect": []any{map[string]any{"i": z.String()}},
					"style": "json", "fixed": true, "input": extFromGo([]any{lit})}, "fixedpoint")
			}
		},
		Impl: func(req map[string]any) any {
			pa := paramArray(req["params"])
			if req["history"] == true {
				// the definition was first validated and used with other leaf types, then its type strings were changed
				// in place (same objects) and it was validated again: what counts is the definition as it now stands
				pa = paramArray(blandParams(req["params"]))
				e := &abi.Entry{Type: abi.Function, Name: "f", Inputs: pa}
				_ = e.Validate()
				_, _ = e.Signature()
				_, _ = pa.TypeComponentTree()
				retypeParams(pa, req["params"])
				if verr := e.Validate(); verr != nil {
					return "err"
				}
			}
			var b []byte
			var err error
			if txt, has := req["jsonText"].(string); has {
				b, err = pa.EncodeABIDataJSON([]byte(txt))
			} else {
				b, err = pa.EncodeABIDataValues(goFromExt(req["input"].(map[string]any)))
			}
			if err != nil {
				return "err"
			}
			return ok(hx(b))
		},
		Judge: func(c *Ctx, req map[string]any, impl any, orc map[string]any) []Finding {
			var fs []Finding
			region := "abi.encode"
			fixed := req["fixed"] == true
			if fixed {
				region = "abi.encode.fixed"
			}
			if impl == "panic" {
				return []Finding{{Kind: "violation", Region: region + ".panic", Detail: "encoding panicked"}}
			}
			if !fixed && !same(impl, orc["model"]) {
				fs = append(fs, Finding{Kind: "mismatch", Region: region, Detail: "encoded bytes / acceptance differ from model"})
			}
			switch e := req["expect"].(type) {
			case string:
				if e == "reject" {
					if _, accepted := impl.(map[string]any); accepted {
						fs = append(fs, Finding{Kind: "violation", Region: region + ".accepts-invalid", Detail: "out-of-range / non-integral / wrong-arity input was encoded"})
					}
				}
			case []any:
				spec, isStr := orc["spec"].(string)
				if !isStr || spec == "ill-typed-expectation" {
					fs = append(fs, Finding{Kind: "mismatch", Region: "harness.expectation", Detail: "generator produced an ill-typed expectation"})
				} else if !same(impl, ok(spec)) {
					fs = append(fs, Finding{Kind: "violation", Region: region + ".spec", Detail: "encoding is not the Solidity ABI specification encoding of the value the input denotes"})
				}
			}
			return fs
		},
	})

	// ------------------------------------------------------------------ C03
	register(&Suite{
		Prop:     "C03",
		Parallel: true,
		Gen: func(c *Ctx) {
			r := c.R
			n := 500
			nCfg := 6
			if c.Thorough() {
				n = 8000
				nCfg = 144
			}
			o := tyOpts{maxArr: 3, unnamed: true}
			for i := 0; i < n; i++ {
				ts := genParamList(r, o, 1+r.Intn(4))
				top := topTuple(ts)
				v := genVal(r, top, 100)
				var cfgs []any
				if nCfg >= 144 && i%20 == 0 {
					for _, cf := range allCfgs {
						cfgs = append(cfgs, cf)
					}
				} else {
					for k := 0; k < 6; k++ {
						cfgs = append(cfgs, allCfgs[r.Intn(len(allCfgs))])
					}
				}
				pre := r.Bytes(32 * r.Intn(3))
				if r.Intn(4) == 0 {
					pre = r.Bytes(4) // selector-like, unaligned
				}
				c.Add(map[string]any{"op": "abi.roundtrip", "params": paramsJSON(ts), "value": v, "pre": hx(pre), "post": hx(r.Bytes(r.Intn(3) * 7)), "cfgs": cfgs}, "roundtrip")
			}
			// integers whose low 64 bits are small (2^64, 2^64+42, 2^256-1, -(2^64), 2^53±1, 2^63): serializers that narrow
			for _, zs := range []string{"18446744073709551616", "18446744073709551658", "115792089237316195423570985008687907853269984665640564039457584007913129639935",
				"9007199254740991", "9007199254740992", "9007199254740993", "9223372036854775808", "9223372036854775807", "36893488147419103232", "340282366920938463463374607431768211456"} {
				for _, neg := range []bool{false, true} {
					t := &absTy{Kind: "uint", M: 256, Name: "big"}
					v := zs
					if neg {
						if len(zs) > 77 {
							continue
						}
						t = &absTy{Kind: "int", M: 256, Name: "big"}
						v = "-" + zs
					}
					var cfgs []any
					for _, cf := range allCfgs {
						if cf["bytes"] == "hex" && cf["addr"] == "none" {
							cfgs = append(cfgs, cf)
						}
					}
					c.Add(map[string]any{"op": "abi.roundtrip", "params": paramsJSON([]*absTy{t, {Kind: "uint", M: 8, Name: "z"}}), "value": []any{map[string]any{"i": v}, map[string]any{"i": "7"}}, "pre": "", "post": "", "cfgs": cfgs}, "roundtrip.bigints")
				}
			}
			if !c.Thorough() {
				// every one of the 144 configurations at least once in the quick tier as well
				ts := namedShapes(r)[5]
				top := topTuple(ts)
				ts2 := append([]*absTy{}, ts...)
				ts2 = append(ts2, &absTy{Kind: "address", Name: "ad"}, &absTy{Kind: "int", M: 64, Name: "sn"}, &absTy{Kind: "bool", Name: ""}, &absTy{Kind: "bytesM", M: 5, Name: "b5"})
				top = topTuple(ts2)
				for k := 0; k < 3; k++ {
					v := genVal(r, top, 80)
					var cfgs []any
					for _, cf := range allCfgs {
						cfgs = append(cfgs, cf)
					}
					c.Add(map[string]any{"op": "abi.roundtrip", "params": paramsJSON(ts2), "value": v, "pre": "", "post": "", "cfgs": cfgs}, "roundtrip.allcfgs")
				}
			}
		},
		ImplO: func(req map[string]any, orc map[string]any) any {
			pa := paramArray(req["params"])
			specEnc, _ := orc["specEnc"].(string)
			pre := unhx(str(req, "pre"))
			block := append(append(append([]byte{}, pre...), unhx(specEnc)...), unhx(str(req, "post"))...)
			cv, err := pa.DecodeABIData(block, len(pre))
			if err != nil {
				return map[string]any{"dec": "err"}
			}
			out := map[string]any{"dec": ok(cvToJSON(cv))}
			var sers []any
			for _, cfa := range req["cfgs"].([]any) {
				cfg := cfa.(map[string]any)
				s := serializerFor(cfg)
				iv, err := s.SerializeInterface(cv)
				if err != nil {
					sers = append(sers, map[string]any{"out": "err"})
					continue
				}
				entry := map[string]any{"out": ok(jToJSON(iv))}
				// reparse + re-encode (object and flat modes, hex / numeric renderings)
				if cfg["mode"] != "self" && cfg["bytes"] != "base64" {
					jb, jerr := s.SerializeJSON(cv)
					if jerr != nil {
						entry["reparse"] = "json-err"
					} else if b2, perr := pa.EncodeABIDataJSON(jb); perr != nil {
						entry["reparse"] = "err"
					} else {
						entry["reparse"] = hx(b2)
					}
				}
				sers = append(sers, entry)
			}
			out["sers"] = sers
			return out
		},
		Judge: func(c *Ctx, req map[string]any, impl any, orc map[string]any) []Finding {
			var fs []Finding
			if impl == "panic" {
				return []Finding{{Kind: "violation", Region: "abi.roundtrip.panic", Detail: "decode / serialize panicked on a valid encoding"}}
			}
			if orc["wellTyped"] != true {
				return []Finding{{Kind: "mismatch", Region: "harness.expectation", Detail: "generated value is not well typed"}}
			}
			if !same(orc["modelEnc"], ok(orc["specEnc"])) {
				fs = append(fs, Finding{Kind: "mismatch", Region: "abi.enc.model-vs-spec", Detail: "Model.encode differs from Spec.enc on a well-typed value"})
			}
			if orc["specDynamic"] != orc["modelDynamic"] {
				fs = append(fs, Finding{Kind: "mismatch", Region: "abi.isDynamic.model-vs-spec", Detail: "type-driven dynamic classification differs"})
			}
			m := impl.(map[string]any)
			if !same(m["dec"], orc["modelDec"]) {
				fs = append(fs, Finding{Kind: "mismatch", Region: "abi.decode", Detail: "decode differs from model"})
			}
			if !same(m["dec"], ok(req["value"])) {
				fs = append(fs, Finding{Kind: "violation", Region: "abi.roundtrip.decode", Detail: "decoding the specification encoding did not return the value"})
				return fs
			}
			sers, _ := m["sers"].([]any)
			osers, _ := orc["sers"].([]any)
			for i := range sers {
				if i >= len(osers) {
					break
				}
				s := sers[i].(map[string]any)
				o := osers[i].(map[string]any)
				cfg := req["cfgs"].([]any)[i].(map[string]any)
				tag := fmt.Sprintf("%v/%v/%v/%v", cfg["mode"], cfg["ints"], cfg["bytes"], cfg["addr"])
				if rp, has := s["reparse"]; has && rp != orc["specEnc"] {
					fs = append(fs, Finding{Kind: "violation", Region: "abi.serialize.reparse", Detail: "parsing the serialized JSON and encoding again does not reproduce the bytes for " + tag})
				}
				if !same(s["out"], o["out"]) {
					fs = append(fs, Finding{Kind: "mismatch", Region: "abi.serialize", Detail: "serialized output differs from model for " + tag})
					continue
				}
				if !same(o["denotes"], req["value"]) {
					fs = append(fs, Finding{Kind: "violation", Region: "abi.serialize.denotes", Detail: "serialized JSON does not denote the value (names/order/type labels/values) for " + tag})
				}
			}
			return fs
		},
	})

	// ------------------------------------------------------------------ C11
	register(&Suite{
		Prop:     "C11",
		Parallel: true,
		ParKey: func(impl any) any {
			m, isMap := impl.(map[string]any)
			if !isMap {
				return impl
			}
			o := map[string]any{}
			for k, v := range m {
				if k != "alloc" {
					o[k] = v
				}
			}
			return o
		},
		Gen: func(c *Ctx) {
			r := c.R
			n := 700
			if c.Thorough() {
				n = 15000
			}
			o := tyOpts{maxArr: 3, unnamed: true}
			boundary := func(l int) []*big.Int {
				return []*big.Int{big.NewInt(0), big.NewInt(1), big.NewInt(31), big.NewInt(32), big.NewInt(int64(l - 32)), big.NewInt(int64(l)), big.NewInt(int64(l + 1)),
					pow2(31), new(big.Int).Sub(pow2(32), big.NewInt(1)), pow2(32), pow2(63), new(big.Int).Sub(pow2(64), big.NewInt(1)), pow2(255), new(big.Int).Sub(pow2(256), big.NewInt(1)),
					big.NewInt(int64(l / 2)), big.NewInt(64), big.NewInt(96)}
			}
			for i := 0; i < n; i++ {
				ts := genParamList(r, o, 1+r.Intn(4))
				top := topTuple(ts)
				v := genVal(r, top, 70)
				pa := paramArray(paramsJSON(ts))
				enc, err := pa.EncodeABIDataValues(renderVal(r, top, v, "json", false))
				if err != nil {
					continue
				}
				cfg := allCfgs[r.Intn(len(allCfgs))]
				isolateNext := false
				add := func(b []byte, off int, tag string) {
					req := map[string]any{"op": "abi.decode", "params": paramsJSON(ts), "hex": hx(b), "offset": off, "cfg": cfg}
					if isolateNext {
						// a count word in [2^20, 2^32) could make a defective decoder allocate gigabytes: run it in a child process
						req["isolate"] = true
						isolateNext = false
					}
					c.Add(req, tag)
				}
				add(enc, 0, "valid")
				words := len(enc) / 32
				for k := 0; k < 8 && words > 0; k++ {
					m := append([]byte{}, enc...)
					w := r.Intn(words)
					if r.Intn(3) > 0 {
						// prefer words that look like offsets / lengths (small values)
						for try := 0; try < 8; try++ {
							cand := r.Intn(words)
							if new(big.Int).SetBytes(enc[cand*32:cand*32+32]).BitLen() <= 16 {
								w = cand
								break
							}
						}
					}
					bv := Pick(r, boundary(len(enc)))
					if bv.Sign() < 0 {
						bv = big.NewInt(0)
					}
					bv.FillBytes(m[w*32 : w*32+32])
					isolateNext = bv.BitLen() > 20 && bv.BitLen() <= 32
					add(m, 0, "mut.word")
				}
				for k := 0; k < 3; k++ {
					cut := Pick(r, []int{r.Intn(len(enc) + 1), len(enc) - 1, len(enc) - 31, len(enc) - 32, 31, 32, 1})
					if cut < 0 {
						cut = 0
					}
					if cut > len(enc) {
						cut = len(enc)
					}
					add(enc[:cut], 0, "mut.trunc")
				}
				add(append(append([]byte{}, enc...), r.Bytes(Pick(r, []int{1, 31, 32, 33}))...), 0, "mut.extend")
				add(append(r.Bytes(4), enc...), 4, "offset4")
				add(enc, Pick(r, []int{1, 32, len(enc), len(enc) + 1, 1 << 20}), "badoffset")
				if r.Intn(4) == 0 {
					add(r.Bytes(r.LogLen(2048)), 0, "random")
					z := make([]byte, 32*(1+r.Intn(20)))
					add(z, 0, "zeros")
					for k := range z {
						z[k] = 0xff
					}
					add(z, 0, "ones")
				}
			}
			// elements with an empty encoding (T[0], empty tuples): nothing but the count word bounds the loop
			emptyTys := [][]*absTy{
				{{Kind: "darr", Name: "a", Child: &absTy{Kind: "farr", Len: 0, Child: &absTy{Kind: "uint", M: 256}}}},
				{{Kind: "darr", Name: "a", Child: &absTy{Kind: "tuple"}}},
				{{Kind: "darr", Name: "a", Child: &absTy{Kind: "farr", Len: 3, Child: &absTy{Kind: "tuple"}}}},
				{{Kind: "darr", Name: "a", Child: &absTy{Kind: "darr", Child: &absTy{Kind: "tuple"}}}},
				{{Kind: "uint", M: 8, Name: "x"}, {Kind: "darr", Name: "a", Child: &absTy{Kind: "farr", Len: 0, Child: &absTy{Kind: "string"}}}},
			}
			for _, ts := range emptyTys {
				for _, cnt := range []*big.Int{big.NewInt(0), big.NewInt(1), big.NewInt(3), big.NewInt(1000), big.NewInt(65535), big.NewInt(65536), big.NewInt(65537), pow2(20), pow2(24), new(big.Int).Sub(pow2(32), big.NewInt(1))} {
					words := 2 + len(ts) - 1
					b := make([]byte, 32*words+64)
					big.NewInt(int64(32 * len(ts))).FillBytes(b[32*(len(ts)-1) : 32*len(ts)])
					cnt.FillBytes(b[32*len(ts) : 32*len(ts)+32])
					big.NewInt(32).FillBytes(b[32*len(ts)+32 : 32*len(ts)+64]) // an inner offset, for the nested shape
					req := map[string]any{"op": "abi.decode", "params": paramsJSON(ts), "hex": hx(b), "offset": 0, "cfg": allCfgs[0]}
					if cnt.BitLen() > 17 {
						req["isolate"] = true
						req["noModel"] = true // judged against the property alone: it must end in an error or a bounded tree
					}
					c.Add(req, "emptyelems")
				}
			}
			// the memory claim: a count word of 2^32-1 / 2^28 in 64 bytes
			darr := &absTy{Kind: "darr", Child: &absTy{Kind: "uint", M: 256}, Name: "a"}
			for _, cnt := range []*big.Int{new(big.Int).Sub(pow2(32), big.NewInt(1)), pow2(28), pow2(31), pow2(24)} {
				b := make([]byte, 64)
				b[31] = 32
				cnt.FillBytes(b[32:64])
				c.Add(map[string]any{"op": "abi.decode", "params": paramsJSON([]*absTy{darr}), "hex": hx(b), "offset": 0, "cfg": allCfgs[0], "isolate": true}, "hugecount")
				dd := &absTy{Kind: "darr", Child: &absTy{Kind: "darr", Child: &absTy{Kind: "string"}}, Name: "a"}
				c.Add(map[string]any{"op": "abi.decode", "params": paramsJSON([]*absTy{dd}), "hex": hx(b), "offset": 0, "cfg": allCfgs[0], "isolate": true}, "hugecount")
			}
			// the other entry points on arbitrary bytes: call data, event topics / data, revert data — valid encodings,
			// every short length (nil, empty, 1…5 bytes), truncations, mutated words, random bytes
			ne := 120
			if c.Thorough() {
				ne = 4000
			}
			for i := 0; i < ne; i++ {
				ts := genEntryParams(r, 1+r.Intn(2))
				kind := Pick(r, []string{"calldata", "calldata", "event", "error", "error"})
				typ := map[string]string{"calldata": "function", "event": "event", "error": "error"}[kind]
				if kind == "event" {
					// indexed inputs of every kind, composite ones included (they surface as their raw topic)
					for _, t := range ts {
						t.Index = r.Intn(2) == 0
					}
				}
				ej := entryJSON(typ, Pick(r, []string{"f", "Transfer", "Err", "Error"}), kind == "event" && r.Intn(4) == 0, ts)
				e := entryFromJSON(ej)
				var valid []byte
				if cvIn, perr := e.Inputs.ParseExternalData(renderVal(r, topTuple(ts), genVal(r, topTuple(ts), 40), "json", false)); perr == nil {
					if b, eerr := e.EncodeCallData(cvIn); eerr == nil {
						valid = b
					}
				}
				var datas [][]byte
				datas = append(datas, nil, []byte{}, valid)
				for l := 1; l <= 5; l++ {
					if l <= len(valid) {
						datas = append(datas, append([]byte{}, valid[:l]...))
					}
					datas = append(datas, r.Bytes(l))
				}
				if len(valid) > 4 {
					datas = append(datas, valid[:4+r.Intn(len(valid)-3)], append(append([]byte{}, valid...), r.Bytes(1+r.Intn(40))...))
					m := append([]byte{}, valid...)
					w := (len(m) - 4) / 32
					if w > 0 {
						k := 4 + 32*r.Intn(w)
						Pick(r, []*big.Int{big.NewInt(0), big.NewInt(31), big.NewInt(int64(len(m))), pow2(31), pow2(32), pow2(64), new(big.Int).Sub(pow2(256), big.NewInt(1))}).FillBytes(m[k : k+32])
						datas = append(datas, m)
					}
				}
				datas = append(datas, r.Bytes(r.LogLen(300)))
				for _, d := range datas {
					req := map[string]any{"op": "abi.rawentry", "kind": kind, "data": hx(d), "nilData": d == nil}
					switch kind {
					case "calldata":
						req["entry"] = ej
					case "event":
						req["entry"] = ej
						if kind == "event" && len(d) >= 4 {
							d = d[4:] // event data carries no selector
							req["data"] = hx(d)
						}
						var topics []any
						nt := Pick(r, []int{0, 0, 1, 2, 3, 4, 5})
						if r.Bool() {
							// the right number of topics, the signature topic first
							nt = 0
							if !e.Anonymous {
								topics = append(topics, hx(e.SignatureHashBytes()))
							}
							for _, in := range e.Inputs {
								if in.Indexed {
									topics = append(topics, hx(r.Bytes(32)))
								}
							}
						}
						for k := 0; k < nt; k++ {
							topics = append(topics, hx(r.Bytes(Pick(r, []int{32, 32, 32, 0, 1, 31, 33}))))
						}
						if topics == nil {
							topics = []any{}
						}
						req["topics"] = topics
					case "error":
						ab := []any{ej}
						for q := r.Intn(3); q > 0; q-- {
							ab = append(ab, entryJSON(Pick(r, []string{"error", "function"}), Pick(r, []string{"Other", "Err"}), false, genEntryParams(r, 1)))
						}
						req["abi"] = ab
						if r.Intn(3) == 0 && len(d) >= 4 {
							// the built-in Error(string) selector in front of whatever follows
							req["data"] = "08c379a0" + hx(d[4:])
						}
					}
					c.Add(req, "rawentry."+kind)
				}
			}
		},
		Impl: func(req map[string]any) any {
			if str(req, "op") == "abi.rawentry" {
				return rawEntryImpl(req)
			}
			pa := paramArray(req["params"])
			block := unhx(str(req, "hex"))
			off := 0
			switch t := req["offset"].(type) {
			case int:
				off = t
			case json.Number:
				n, _ := t.Int64()
				off = int(n)
			case float64:
				off = int(t)
			}
			var ms0, ms1 runtime.MemStats
			runtime.ReadMemStats(&ms0)
			cv, err := pa.DecodeABIData(block, off)
			runtime.ReadMemStats(&ms1)
			out := map[string]any{"alloc": ms1.TotalAlloc - ms0.TotalAlloc}
			if err != nil {
				out["dec"] = "err"
				return out
			}
			out["dec"] = ok(cvToJSON(cv))
			iv, serr := serializerFor(req["cfg"].(map[string]any)).SerializeInterface(cv)
			if serr != nil {
				out["out"] = "err"
			} else {
				out["out"] = ok(jToJSON(iv))
			}
			if _, jerr := abi.NewSerializer().SerializeJSON(cv); jerr != nil {
				out["json"] = "err"
			}
			re, eerr := cv.EncodeABIData()
			if eerr != nil {
				out["reenc"] = "err"
			} else {
				out["reenc"] = ok(hx(re))
				cv2, derr := pa.DecodeABIData(re, 0)
				if derr != nil {
					out["again"] = "err"
				} else {
					out["again"] = ok(cvToJSON(cv2))
				}
			}
			return out
		},
		Judge: func(c *Ctx, req map[string]any, impl any, orc map[string]any) []Finding {
			var fs []Finding
			if impl == "panic" {
				return []Finding{{Kind: "violation", Region: "abi.decode.panic", Detail: "decoding arbitrary bytes (or serialising / re-encoding the result) panicked"}}
			}
			if impl == "crash" {
				return []Finding{{Kind: "violation", Region: "abi.decode.memory", Detail: "decode of a small input exhausted memory / killed the (isolated) process"}}
			}
			m := impl.(map[string]any)
			if str(req, "op") == "abi.rawentry" {
				return rawEntryJudge(req, impl, orc)
			}
			if orc["skipped"] == true {
				if _, isok := m["dec"].(map[string]any); isok {
					fs = append(fs, Finding{Kind: "violation", Region: "abi.decode.memory", Detail: "a count word beyond 2^17 over elements with an empty encoding was honoured: work and memory driven by one word of the input"})
				}
				return fs
			}
			if !same(m["dec"], orc["model"]) {
				fs = append(fs, Finding{Kind: "mismatch", Region: "abi.decode", Detail: "decode of arbitrary bytes differs from model"})
				return fs
			}
			// memory: bounded by the data supplied (generous constant; catches count-driven allocation)
			var alloc uint64
			switch a := m["alloc"].(type) {
			case uint64:
				alloc = a
			case json.Number:
				z, _ := new(big.Int).SetString(a.String(), 10)
				if z != nil && z.IsUint64() {
					alloc = z.Uint64()
				} else {
					alloc = 1 << 62
				}
			}
			limit := uint64(64<<20) + 4096*uint64(len(str(req, "hex"))/2)
			if alloc > limit {
				fs = append(fs, Finding{Kind: "violation", Region: "abi.decode.memory", Detail: fmt.Sprintf("decode allocated %d bytes for %d bytes of input", alloc, len(str(req, "hex"))/2)})
			}
			if _, isok := m["dec"].(map[string]any); isok {
				if !same(m["out"], orc["out"]) {
					fs = append(fs, Finding{Kind: "mismatch", Region: "abi.serialize", Detail: "serialisation of decoded tree differs from model"})
				}
				if m["out"] == "err" || m["json"] == "err" {
					fs = append(fs, Finding{Kind: "violation", Region: "abi.decode.unserialisable", Detail: "a returned tree could not be serialised to JSON"})
				}
				if !same(m["reenc"], orc["reenc"]) {
					fs = append(fs, Finding{Kind: "mismatch", Region: "abi.reencode", Detail: "re-encoding of decoded tree differs from model"})
				}
				if _, re := m["reenc"].(map[string]any); re {
					if !same(m["again"], m["dec"]) {
						fs = append(fs, Finding{Kind: "violation", Region: "abi.decode.unstable", Detail: "decode(encode(decode(x))) differs from decode(x)"})
					}
				}
			}
			return fs
		},
		Shrink: func(req map[string]any) []map[string]any {
			b := unhx(str(req, "hex"))
			var out []map[string]any
			for _, nb := range [][]byte{b[:len(b)/2], b[:max(0, len(b)-32)], b[:max(0, len(b)-1)]} {
				if len(nb) == len(b) {
					continue
				}
				m := map[string]any{}
				for k, v := range req {
					m[k] = v
				}
				m["hex"] = hx(nb)
				out = append(out, m)
			}
			return out
		},
	})
}
