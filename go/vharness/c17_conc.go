//go:build verif

package main

import (
	"bytes"
	"context"
	"encoding/json"
	"fmt"
	"math/big"
	"os"
	"os/exec"
	"path"
	"regexp"
	"sort"
	"strings"
	"sync"
	"sync/atomic"
	"time"

	"github.com/hyperledger/firefly-signer/pkg/eip712"
	"github.com/hyperledger/firefly-signer/pkg/ethsigner"
	"github.com/hyperledger/firefly-signer/pkg/ethtypes"
	"github.com/hyperledger/firefly-signer/pkg/fswallet"
	"github.com/hyperledger/firefly-signer/pkg/secp256k1"
)

// ---------- part 1: sequential correspondence with Model.FsWalletConc ----------

type c17Listener struct {
	id  int
	ch  chan ethtypes.Address0xHex
	got []int
}

func c17Sequential(c *Ctx, idx int) {
	r := c.R
	dir, _ := os.MkdirTemp("", "c17seq")
	defer os.RemoveAll(dir)
	linkTargets, _ := os.MkdirTemp("", "c17tgt")
	defer os.RemoveAll(linkTargets)
	conf := &fswallet.Config{Path: dir, SignerCacheSize: "1MB", SignerCacheTTL: "1h", DisableListener: true}
	conf.Filenames.PrimaryExt = ".key.json"
	conf.Metadata.Format = "none"
	ctx := context.Background()
	var ls []*c17Listener
	nInit := r.Intn(3)
	var initial []chan<- ethtypes.Address0xHex
	for i := 0; i < nInit; i++ {
		l := &c17Listener{id: len(ls), ch: make(chan ethtypes.Address0xHex, 4096)}
		ls = append(ls, l)
		initial = append(initial, l.ch)
	}
	w, err := fswallet.NewFilesystemWallet(ctx, conf, initial...)
	if err != nil {
		return
	}
	var ops []map[string]any
	for _, l := range ls {
		ops = append(ops, map[string]any{"t": "add", "l": l.id})
	}
	addrIdx := map[string]int{}
	var implGets [][]int
	idxOf := func(a string) int {
		if v, has := addrIdx[a]; has {
			return v
		}
		addrIdx[a] = len(addrIdx)
		return addrIdx[a]
	}
	known := 0
	initialized := false
	nOps := 4 + r.Intn(12)
	var created []string
	var pool []string // addresses whose files may be (re)created
	for i := 0; i < 6; i++ {
		pool = append(pool, hx(r.Bytes(20)))
	}
	for i := 0; i < nOps; i++ {
		switch r.Intn(7) {
		case 0, 1: // create a file (matching, second spelling for the same address, or junk)
			a := Pick(r, pool)
			if len(created) > 0 && r.Intn(5) < 2 { // a second spelling for an address that already has a file
				a = created[r.Intn(len(created))]
			}
			name := Pick(r, []string{a + ".key.json", a + ".key.json", "0x" + a + ".key.json", strings.ToUpper(a) + ".key.json", "0x" + strings.ToUpper(a) + ".key.json", a + ".txt", a, a[:38] + ".key.json", "README.md"})
			switch r.Intn(8) {
			case 0: // the key file is a symbolic link to a file kept elsewhere (a mounted secret): it counts
				target := path.Join(linkTargets, fmt.Sprintf("t%d", i))
				_ = os.WriteFile(target, []byte("{}"), 0o600)
				_ = os.Remove(path.Join(dir, name))
				_ = os.Symlink(target, path.Join(dir, name))
				c.Tags["seq.symlink"]++
			case 1: // a sub-directory whose name matches the rule: never an account
				if _, err := os.Lstat(path.Join(dir, name)); err != nil {
					_ = os.Mkdir(path.Join(dir, name), 0o700)
					c.Tags["seq.subdir"]++
					continue
				}
				_ = os.WriteFile(path.Join(dir, name), []byte("{}"), 0o600)
			default:
				_ = os.WriteFile(path.Join(dir, name), []byte("{}"), 0o600)
			}
			if fi, err := os.Stat(path.Join(dir, name)); err == nil && !fi.IsDir() && strings.HasSuffix(name, ".key.json") && len(name) >= 49 {
				created = append(created, a)
			}
		case 2:
			l := &c17Listener{id: len(ls), ch: make(chan ethtypes.Address0xHex, 4096)}
			ls = append(ls, l)
			w.AddListener(l.ch)
			ops = append(ops, map[string]any{"t": "add", "l": l.id})
		case 3:
			accs, _ := w.GetAccounts(ctx)
			var g []int
			for _, a := range accs {
				g = append(g, idxOf(hx(a[:])))
			}
			implGets = append(implGets, g)
			ops = append(ops, map[string]any{"t": "get"})
		default: // a discovery pass: what notifyNewFiles is handed = the directory listing, in ReadDir order
			entries, _ := os.ReadDir(dir)
			var files []any
			for _, e := range entries {
				nm := e.Name()
				if fi, err := os.Stat(path.Join(dir, nm)); err != nil || fi.IsDir() { // what the naming rule is applied to: files
					files = append(files, []any{nm, nil})
					continue
				}
				if strings.HasSuffix(nm, ".key.json") {
					h := strings.TrimPrefix(strings.TrimSuffix(nm, ".key.json"), "0x")
					if len(h) == 40 && isHexStr(strings.ToLower(h)) {
						files = append(files, []any{nm, idxOf(strings.ToLower(h))})
						continue
					}
				}
				files = append(files, []any{nm, nil})
			}
			nListeners := len(ls)
			if !initialized {
				_ = w.Initialize(ctx)
				initialized = true
			} else {
				_ = w.Refresh(ctx)
			}
			if len(files) > 0 { // Refresh skips notifyNewFiles for an empty directory
				ops = append(ops, map[string]any{"t": "notify", "files": files})
			}
			accs, _ := w.GetAccounts(ctx)
			newN := len(accs) - known
			known = len(accs)
			// the dispatch goroutine of this pass sends newN addresses to each listener registered at the pass
			for _, l := range ls[:nListeners] {
				for k := 0; k < newN; k++ {
					select {
					case a := <-l.ch:
						l.got = append(l.got, idxOf(hx(a[:])))
					case <-time.After(2 * time.Second):
						k = newN
					}
				}
			}
			ops = append(ops, map[string]any{"t": "drain"})
		}
	}
	_ = w.Close()
	time.Sleep(5 * time.Millisecond)
	implDelivered := map[string]any{}
	for _, l := range ls { // anything beyond what was expected
	extra:
		for {
			select {
			case a := <-l.ch:
				l.got = append(l.got, idxOf(hx(a[:])))
			default:
				break extra
			}
		}
		g := []any{}
		for _, x := range l.got {
			g = append(g, x)
		}
		implDelivered[fmt.Sprint(l.id)] = g
	}
	accs, _ := w.GetAccounts(ctx)
	var implKnown []any
	for _, a := range accs {
		implKnown = append(implKnown, idxOf(hx(a[:])))
	}
	c.Add(map[string]any{"op": "fswc.run", "ops": ops, "implKnown": implKnown, "implDelivered": implDelivered, "implGets": implGets, "mode": "sequential"}, "sequential")
}

// ---------- part 2: concurrent stress under the race detector (child process built with -race) ----------

type c17Params struct {
	Seed        uint64 `json:"seed"`
	Goroutines  int    `json:"goroutines"`
	Files       int    `json:"files"`
	Listener    bool   `json:"listener"`
	MetaFormat  string `json:"metaFormat"` // "auto" | "toml" | "none"
	Procs       int    `json:"procs"`
	LateAdders  int    `json:"lateAdders"`
	EarlyListen int    `json:"earlyListeners"`
}

type c17Outcome struct {
	Problems      []string `json:"problems"`
	Addresses     int      `json:"addresses"`
	Deliveries    int      `json:"deliveries"`
	Signs         int      `json:"signs"`
	SignErrors    int      `json:"signErrors"`
	Refreshes     int      `json:"refreshes"`
	GetAccounts   int      `json:"getAccounts"`
	LateListeners int      `json:"lateListeners"`
	CloseMs       int64    `json:"closeMs"`
}

// c17StressMain runs in the -race child: real wallet, real files, real goroutines.
func c17StressMain(arg string) {
	var p c17Params
	_ = json.Unmarshal([]byte(arg), &p)
	out := &c17Outcome{}
	var pmu sync.Mutex
	problem := func(f string, a ...any) {
		pmu.Lock()
		if len(out.Problems) < 20 {
			out.Problems = append(out.Problems, fmt.Sprintf(f, a...))
		}
		pmu.Unlock()
	}
	r := NewRng(p.Seed)
	root, _ := os.MkdirTemp("", "c17stress")
	defer os.RemoveAll(root)
	dir := path.Join(root, "w")
	keyDir := path.Join(root, "k")
	_ = os.MkdirAll(dir, 0o755)
	_ = os.MkdirAll(keyDir, 0o755)
	conf := &fswallet.Config{Path: dir, SignerCacheSize: "10MB", SignerCacheTTL: "1h", DisableListener: !p.Listener}
	isMeta := p.MetaFormat != "none"
	if isMeta {
		conf.Filenames.PrimaryExt = ".toml"
		conf.Metadata.Format = p.MetaFormat
		conf.Metadata.KeyFileProperty = `{{ index .signing "key-file" }}`
		conf.Metadata.PasswordFileProperty = `{{ index .signing "password-file" }}`
	} else {
		conf.Filenames.PrimaryExt = ".key.json"
		conf.Filenames.PasswordExt = ".pwd"
		conf.Metadata.Format = "none"
	}
	// key material prepared up front (cheap scrypt), files are written during the run
	type acct struct {
		addr ethtypes.Address0xHex
		doc  []byte
	}
	var accts []acct
	for i := 0; i < p.Files; i++ {
		key := big.NewInt(int64(5000 + i)).FillBytes(make([]byte, 32))
		kp := secp256k1.KeyPairFromBytes(key)
		accts = append(accts, acct{kp.Address, externalV3(r, "scrypt", []byte("pw"), key, 2, 1, 1, 0)})
	}
	ctx, cancel := context.WithCancel(context.Background())
	defer cancel()
	type lst struct {
		ch    chan ethtypes.Address0xHex
		got   []ethtypes.Address0xHex
		early bool
		done  chan struct{}
	}
	var lmu sync.Mutex
	var listeners []*lst
	newListener := func(early bool) *lst {
		l := &lst{ch: make(chan ethtypes.Address0xHex, 1), early: early, done: make(chan struct{})}
		go func() {
			for {
				select {
				case a := <-l.ch:
					lmu.Lock()
					l.got = append(l.got, a)
					lmu.Unlock()
				case <-l.done:
					return
				}
			}
		}()
		lmu.Lock()
		listeners = append(listeners, l)
		lmu.Unlock()
		return l
	}
	var initial []chan<- ethtypes.Address0xHex
	if p.EarlyListen > 0 {
		initial = append(initial, newListener(true).ch)
	}
	ww, err := fswallet.NewFilesystemWallet(ctx, conf, initial...)
	if err != nil {
		problem("NewFilesystemWallet: %v", err)
		emitC17(out)
		return
	}
	if err := ww.Initialize(ctx); err != nil {
		problem("Initialize: %v", err)
		emitC17(out)
		return
	}
	for i := 1; i < p.EarlyListen; i++ {
		ww.AddListener(newListener(true).ch)
	}
	var wg sync.WaitGroup
	var nextFile int64 = -1
	var stop int32
	writeAccount := func(a acct) {
		h := hx(a.addr[:])
		if isMeta {
			kf, pf := path.Join(keyDir, h+".json"), path.Join(keyDir, h+".pw")
			_ = os.WriteFile(kf, a.doc, 0o600)
			_ = os.WriteFile(pf, []byte("pw"), 0o600)
			tmp := path.Join(root, h+".tmp")
			_ = os.WriteFile(tmp, []byte(fmt.Sprintf("[signing]\ntype = \"file-based-signer\"\nkey-file = %q\npassword-file = %q\n", kf, pf)), 0o600)
			_ = os.Rename(tmp, path.Join(dir, h+".toml"))
		} else {
			_ = os.WriteFile(path.Join(dir, h+".pwd"), []byte("pw"), 0o600)
			tmp := path.Join(root, h+".tmp")
			_ = os.WriteFile(tmp, a.doc, 0o600)
			_ = os.Rename(tmp, path.Join(dir, h+".key.json"))
		}
	}
	roles := []string{"create", "refresh", "get", "sign", "create", "refresh", "add", "sign712"}
	for g := 0; g < p.Goroutines; g++ {
		role := roles[g%len(roles)]
		gr := NewRng(p.Seed*1000 + uint64(g))
		wg.Add(1)
		go func() {
			defer wg.Done()
			defer func() {
				if rec := recover(); rec != nil {
					problem("panic in %s goroutine: %v", role, rec)
				}
			}()
			lateAdded := 0
			for iter := 0; atomic.LoadInt32(&stop) == 0 && iter < 400; iter++ {
				switch role {
				case "create":
					i := atomic.AddInt64(&nextFile, 1)
					if int(i) >= len(accts) {
						return
					}
					writeAccount(accts[i])
					if gr.Intn(3) == 0 {
						time.Sleep(time.Duration(gr.Intn(300)) * time.Microsecond)
					}
				case "refresh":
					if err := ww.Refresh(ctx); err != nil {
						problem("Refresh: %v", err)
					}
					pmu.Lock()
					out.Refreshes++
					pmu.Unlock()
				case "get":
					accs, _ := ww.GetAccounts(ctx)
					seen := map[ethtypes.Address0xHex]bool{}
					for _, a := range accs {
						if seen[*a] {
							problem("GetAccounts returned %s twice", a)
						}
						seen[*a] = true
					}
					pmu.Lock()
					out.GetAccounts++
					pmu.Unlock()
				case "add":
					if lateAdded < p.LateAdders {
						ww.AddListener(newListener(false).ch)
						lateAdded++
						time.Sleep(time.Duration(gr.Intn(500)) * time.Microsecond)
					} else {
						return
					}
				case "sign", "sign712":
					accs, _ := ww.GetAccounts(ctx)
					if len(accs) == 0 {
						time.Sleep(100 * time.Microsecond)
						continue
					}
					a := accs[gr.Intn(len(accs))]
					var serr error
					if role == "sign" {
						from, _ := json.Marshal(a)
						_, serr = ww.Sign(ctx, &ethsigner.Transaction{From: from, Nonce: ethtypes.NewHexInteger64(1), GasLimit: ethtypes.NewHexInteger64(21000)}, 1337)
					} else {
						_, serr = ww.SignTypedDataV4(ctx, *a, &eip712.TypedData{PrimaryType: "EIP712Domain", Types: eip712.TypeSet{}, Domain: map[string]any{}, Message: map[string]any{}})
					}
					pmu.Lock()
					out.Signs++
					if serr != nil {
						out.SignErrors++
					}
					pmu.Unlock()
				}
			}
		}()
	}
	// let the creators finish, then stop the loops
	deadline := time.Now().Add(20 * time.Second)
	for int(atomic.LoadInt64(&nextFile)) < len(accts)-1 && time.Now().Before(deadline) {
		time.Sleep(2 * time.Millisecond)
	}
	time.Sleep(20 * time.Millisecond)
	atomic.StoreInt32(&stop, 1)
	wgDone := make(chan struct{})
	go func() { wg.Wait(); close(wgDone) }()
	select {
	case <-wgDone:
	case <-time.After(30 * time.Second):
		problem("deadlock: worker goroutines did not finish within 30s")
	}
	_ = ww.Refresh(ctx) // the converging pass
	want := map[ethtypes.Address0xHex]bool{}
	for _, a := range accts {
		want[a.addr] = true
	}
	// wait for the early listeners to have everything
	end := time.Now().Add(10 * time.Second)
	for time.Now().Before(end) {
		lmu.Lock()
		okAll := true
		for _, l := range listeners {
			if l.early && len(l.got) < len(accts) {
				okAll = false
			}
		}
		lmu.Unlock()
		if okAll {
			break
		}
		time.Sleep(2 * time.Millisecond)
	}
	time.Sleep(30 * time.Millisecond) // anything sent twice would arrive now
	accs, _ := ww.GetAccounts(ctx)
	seen := map[ethtypes.Address0xHex]bool{}
	for _, a := range accs {
		if seen[*a] {
			problem("final account list contains %s twice", a)
		}
		seen[*a] = true
		if !want[*a] {
			problem("final account list contains %s for which no file exists", a)
		}
	}
	for a := range want {
		if !seen[a] {
			problem("final account list misses %s although its file exists and a refresh ran", a.String())
		}
	}
	out.Addresses = len(accs)
	lmu.Lock()
	for li, l := range listeners {
		cnt := map[ethtypes.Address0xHex]int{}
		for _, a := range l.got {
			cnt[a]++
			out.Deliveries++
		}
		for a, n := range cnt {
			if n > 1 {
				problem("listener %d (early=%v) received %s %d times", li, l.early, a.String(), n)
			}
			if !want[a] {
				problem("listener %d received %s which is no wallet address", li, a.String())
			}
		}
		if l.early {
			for a := range want {
				if cnt[a] == 0 {
					problem("listener %d, registered before any address appeared, never received %s", li, a.String())
				}
			}
		} else {
			out.LateListeners++
		}
	}
	lmu.Unlock()
	// a listener that is not being drained must not stall discovery or Close: register an unbuffered listener, let an
	// address appear, refresh, and only then receive; then let another address appear and close without receiving
	{
		slow := make(chan ethtypes.Address0xHex)
		ww.AddListener(slow)
		mk := func(n int64) acct {
			key := big.NewInt(n).FillBytes(make([]byte, 32))
			kp := secp256k1.KeyPairFromBytes(key)
			return acct{kp.Address, externalV3(r, "scrypt", []byte("pw"), key, 2, 1, 1, 0)}
		}
		x1 := mk(900001)
		writeAccount(x1)
		refreshed := make(chan struct{})
		go func() {
			// the caller's own context, ended as soon as the call returns (as `defer cancel()` does): what was
			// discovered by this call must still reach the listeners
			rctx, rcancel := context.WithCancel(ctx)
			_ = ww.Refresh(rctx)
			rcancel()
			close(refreshed)
		}()
		select {
		case <-refreshed:
		case <-time.After(8 * time.Second):
			problem("deadlock: Refresh did not return within 8s while a registered listener was not yet receiving")
		}
		time.Sleep(20 * time.Millisecond)
		select {
		case a := <-slow:
			if a != x1.addr {
				problem("slow listener received %s, expected the new address %s", a.String(), x1.addr.String())
			}
		case <-time.After(8 * time.Second):
			problem("a listener registered before an address appeared never received it (slow listener)")
		}
		// files keep arriving while the wallet is being closed
		writeAccount(mk(900002)) // nobody receives this one from `slow`: Close must return all the same
		if p.Listener {
			time.Sleep(30 * time.Millisecond)
		} else {
			go func() { _ = ww.Refresh(ctx) }()
			time.Sleep(30 * time.Millisecond)
		}
		// ... and files keep arriving (and callers keep refreshing / listing) while the wallet is being closed
		var prepared []acct
		for q := int64(0); q < 120; q++ {
			prepared = append(prepared, mk(910000+q))
		}
		go func() {
			for _, a := range prepared {
				writeAccount(a)
			}
		}()
		for q := 0; q < 3; q++ {
			go func() {
				for n := 0; n < 40; n++ {
					_ = ww.Refresh(ctx)
					_, _ = ww.GetAccounts(ctx)
				}
			}()
		}
		time.Sleep(time.Duration(1+r.Intn(8)) * time.Millisecond)
	}
	closed := make(chan struct{})
	t0 := time.Now()
	go func() { _ = ww.Close(); close(closed) }()
	select {
	case <-closed:
		out.CloseMs = time.Since(t0).Milliseconds()
	case <-time.After(10 * time.Second):
		problem("Close did not return within 10s")
	}
	for _, l := range listeners {
		close(l.done)
	}
	// discovery through the file-system listener alone (no Refresh): a key file renamed into place, and one moved in
	// from another directory, must be announced to a listener registered beforehand and be listed
	if p.Listener && len(out.Problems) == 0 {
		l3 := make(chan ethtypes.Address0xHex, 4096)
		w3, err3 := fswallet.NewFilesystemWallet(ctx, conf, l3)
		if err3 == nil && w3.Initialize(ctx) == nil {
			for _, n := range []int64{930001, 930002} {
				key := big.NewInt(n).FillBytes(make([]byte, 32))
				kp := secp256k1.KeyPairFromBytes(key)
				if n == 930002 && !isMeta {
					// complete under its final name in another directory, then moved in
					h := hx(kp.Address[:])
					_ = os.WriteFile(path.Join(dir, h+".pwd"), []byte("pw"), 0o600)
					src := path.Join(keyDir, h+".key.json")
					_ = os.WriteFile(src, accts[0].doc, 0o600)
					time.Sleep(5 * time.Millisecond)
					_ = os.Rename(src, path.Join(dir, h+".key.json"))
				} else {
					writeAccount(acct{kp.Address, accts[0].doc}) // written under a temporary name, renamed into place
				}
				seen := false
				deadline := time.After(6 * time.Second)
			wait:
				for {
					select {
					case a := <-l3:
						if a == kp.Address {
							seen = true
							break wait
						}
					case <-deadline:
						break wait
					}
				}
				if !seen {
					problem("a listener registered before the address appeared never received %s (file renamed into place, no Refresh)", kp.Address.String())
				}
				listed := false
				accs3, _ := w3.GetAccounts(ctx)
				for _, a := range accs3 {
					if *a == kp.Address {
						listed = true
					}
				}
				if !listed {
					problem("the account list does not converge to the matching files: %s (renamed into place) is missing without a Refresh", kp.Address.String())
				}
			}
			c3 := make(chan struct{})
			go func() { _ = w3.Close(); close(c3) }()
			select {
			case <-c3:
			case <-time.After(10 * time.Second):
				problem("Close did not return within 10s")
			}
		}
	}
	// closing while discovery is busy, several times over with fresh wallets on the same directory: Close must return
	if p.Listener {
		for round := 0; round < 8 && len(out.Problems) == 0; round++ {
			w2, err2 := fswallet.NewFilesystemWallet(ctx, conf)
			if err2 != nil || w2.Initialize(ctx) != nil {
				break
			}
			var batch []acct
			for q := 0; q < 60; q++ {
				key := big.NewInt(int64(920000 + round*1000 + q)).FillBytes(make([]byte, 32))
				kp := secp256k1.KeyPairFromBytes(key)
				batch = append(batch, acct{kp.Address, accts[0].doc})
			}
			go func() {
				for _, a := range batch {
					writeAccount(a)
				}
			}()
			for q := 0; q < 3; q++ {
				go func() {
					for n := 0; n < 30; n++ {
						_ = w2.Refresh(ctx)
						_, _ = w2.GetAccounts(ctx)
					}
				}()
			}
			time.Sleep(time.Duration(500+r.Intn(6000)) * time.Microsecond)
			done2 := make(chan struct{})
			go func() { _ = w2.Close(); close(done2) }()
			select {
			case <-done2:
			case <-time.After(10 * time.Second):
				problem("Close did not return within 10s while key files were arriving and callers were refreshing (round %d)", round)
			}
		}
	}
	emitC17(out)
}

func emitC17(o *c17Outcome) {
	b, _ := json.Marshal(o)
	fmt.Println("C17RESULT " + string(b))
}

var raceFrameRe = regexp.MustCompile(`(?m)^\s+(\S*pkg/fswallet\S*)\n\s+(\S+pkg/fswallet/\S+:\d+)`)

func c17Stress(c *Ctx, p c17Params) {
	bin := os.Getenv("VERIF_RACE_BIN")
	if bin == "" {
		bin = "/verif/go/bin/vharness-race"
	}
	arg, _ := json.Marshal(p)
	cmd := exec.Command(bin)
	cmd.Env = append(os.Environ(), "VERIF_C17_STRESS="+string(arg), fmt.Sprintf("GOMAXPROCS=%d", p.Procs), "GORACE=halt_on_error=0 exitcode=0")
	var so, se bytes.Buffer
	cmd.Stdout, cmd.Stderr = &so, &se
	done := make(chan error, 1)
	_ = cmd.Start()
	go func() { done <- cmd.Wait() }()
	var werr error
	select {
	case werr = <-done:
	case <-time.After(120 * time.Second):
		_ = cmd.Process.Kill()
		werr = fmt.Errorf("timeout: stress child did not finish in 120s (deadlock?)")
	}
	obs := map[string]any{"params": p}
	var outc c17Outcome
	gotResult := false
	for _, line := range strings.Split(so.String(), "\n") {
		if strings.HasPrefix(line, "C17RESULT ") {
			_ = json.Unmarshal([]byte(strings.TrimPrefix(line, "C17RESULT ")), &outc)
			gotResult = true
		}
	}
	obs["outcome"] = outc
	if !gotResult {
		obs["childFailed"] = fmt.Sprintf("%v: %s", werr, trunc(se.String(), 1500))
	}
	// race reports whose frames lie in pkg/fswallet
	var races []string
	for _, rep := range strings.Split(se.String(), "==================") {
		if !strings.Contains(rep, "WARNING: DATA RACE") || !strings.Contains(rep, "pkg/fswallet") {
			continue
		}
		var frames []string
		for _, m := range raceFrameRe.FindAllStringSubmatch(rep, 6) {
			f := m[2]
			if i := strings.Index(f, "pkg/fswallet/"); i >= 0 {
				f = f[i:]
			}
			frames = append(frames, f)
		}
		sort.Strings(frames)
		races = append(races, strings.Join(frames, " | "))
	}
	obs["races"] = races
	c.Add(map[string]any{"op": "fswc.run", "ops": []any{}, "mode": "stress", "obs": obs}, "stress",
		fmt.Sprintf("stress.listener=%v", p.Listener), "stress.meta="+p.MetaFormat, fmt.Sprintf("stress.procs=%d", p.Procs))
}

func init() {
	register(&Suite{Prop: "C17",
		Gen: func(c *Ctx) {
			nSeq, nStress := 40, 8
			if c.Thorough() {
				nSeq, nStress = 400, 60
			}
			for i := 0; i < nSeq; i++ {
				c17Sequential(c, i)
			}
			for i := 0; i < nStress; i++ {
				p := c17Params{Seed: c.R.U64(), Goroutines: Pick(c.R, []int{2, 4, 8, 16, 32}), Files: 4 + c.R.Intn(20), Listener: i%2 == 0,
					MetaFormat: []string{"auto", "none", "toml", "auto"}[i%4], Procs: Pick(c.R, []int{1, 2, 4, 8, 16}), LateAdders: 1 + c.R.Intn(4), EarlyListen: 1 + c.R.Intn(3)}
				if i < 4 { // the combinations that matter most always run
					p.Goroutines, p.Procs = 16, []int{16, 4, 8, 2}[i]
				}
				c17Stress(c, p)
			}
		},
		Impl: func(req map[string]any) any { return "precomputed" },
		Judge: func(c *Ctx, req map[string]any, impl any, orc map[string]any) []Finding {
			var fs []Finding
			if req["mode"] == "stress" {
				b, _ := json.Marshal(req["obs"])
				var obs struct {
					Outcome     c17Outcome `json:"outcome"`
					Races       []string   `json:"races"`
					ChildFailed string     `json:"childFailed"`
				}
				_ = json.Unmarshal(b, &obs)
				if obs.ChildFailed != "" {
					fs = append(fs, Finding{Kind: "violation", Region: "fsw.stress.child", Detail: "stress run did not complete: " + obs.ChildFailed})
				}
				for _, rc := range obs.Races {
					fs = append(fs, Finding{Kind: "violation", Region: "fsw.race", Detail: "data race reported by the race detector with frames in pkg/fswallet: " + rc})
				}
				for _, pb := range obs.Outcome.Problems {
					region := "fsw.conc.outcome"
					switch {
					case strings.Contains(pb, "times"):
						region = "fsw.conc.twice"
					case strings.Contains(pb, "never received"):
						region = "fsw.conc.missed"
					case strings.Contains(pb, "deadlock") || strings.Contains(pb, "Close did not"):
						region = "fsw.conc.deadlock"
					case strings.Contains(pb, "account list"), strings.Contains(pb, "GetAccounts"):
						region = "fsw.conc.accounts"
					}
					fs = append(fs, Finding{Kind: "violation", Region: region, Detail: pb})
				}
				for _, k := range []string{"signs", "refreshes", "getAccounts", "deliveries", "lateListeners"} {
					n, _ := c.Notes["stress_"+k].(int)
					v := map[string]int{"signs": obs.Outcome.Signs, "refreshes": obs.Outcome.Refreshes, "getAccounts": obs.Outcome.GetAccounts, "deliveries": obs.Outcome.Deliveries, "lateListeners": obs.Outcome.LateListeners}[k]
					c.Notes["stress_"+k] = n + v
				}
				return fs
			}
			// sequential: the model's account list, per-listener sequences and GetAccounts snapshots
			if !same(normJ(req["implKnown"]), normJ(orc["known"])) && !(req["implKnown"] == nil && len(normList(orc["known"])) == 0) {
				fs = append(fs, Finding{Kind: "mismatch", Region: "fswc.known", Detail: "account list differs from model: impl=" + canon(req["implKnown"]) + " model=" + canon(orc["known"])})
			}
			// Tier A, straight from the property: the account list has no duplicates and, after the last discovery pass,
			// is exactly the set of addresses some matching file was seen for
			{
				want := map[string]bool{}
				var ops []map[string]any
				if ob, err := json.Marshal(req["ops"]); err == nil {
					_ = json.Unmarshal(ob, &ops)
				}
				for _, om := range ops {
					if om["t"] != "notify" {
						continue
					}
					fl, _ := om["files"].([]any)
					for _, f := range fl {
						if pr, _ := f.([]any); len(pr) == 2 && pr[1] != nil {
							want[fmt.Sprint(pr[1])] = true
						}
					}
				}
				got := map[string]int{}
				for _, a := range normList(req["implKnown"]) {
					got[fmt.Sprint(a)]++
				}
				for a, n := range got {
					if n > 1 {
						fs = append(fs, Finding{Kind: "violation", Region: "fsw.accounts.dup", Detail: "address #" + a + " is in the account list " + fmt.Sprint(n) + " times"})
					}
					if !want[a] {
						fs = append(fs, Finding{Kind: "violation", Region: "fsw.accounts.extra", Detail: "address #" + a + " is listed but no matching file was ever seen for it"})
					}
				}
				for a := range want {
					if got[a] == 0 {
						fs = append(fs, Finding{Kind: "violation", Region: "fsw.accounts.converge", Detail: "a matching file for address #" + a + " was present at a discovery pass but the address is not in the account list"})
					}
				}
			}
			md, _ := orc["delivered"].(map[string]any)
			id, _ := req["implDelivered"].(map[string]any)
			for k, v := range id {
				mv := md[k]
				if len(normList(v)) == 0 && len(normList(mv)) == 0 {
					continue
				}
				if !same(normJ(v), normJ(mv)) {
					fs = append(fs, Finding{Kind: "mismatch", Region: "fswc.delivered", Detail: "listener " + k + " received " + canon(v) + ", model " + canon(mv)})
				}
				cnt := map[string]int{}
				for _, a := range normList(v) {
					cnt[fmt.Sprint(a)]++
					if cnt[fmt.Sprint(a)] > 1 {
						fs = append(fs, Finding{Kind: "violation", Region: "fsw.conc.twice", Detail: "listener " + k + " received address #" + fmt.Sprint(a) + " twice (sequential run)"})
					}
				}
			}
			ig, _ := json.Marshal(req["implGets"])
			mg, _ := json.Marshal(orc["gets"])
			var igv, mgv [][]int
			_ = json.Unmarshal(ig, &igv)
			_ = json.Unmarshal(mg, &mgv)
			if fmt.Sprint(igv) != fmt.Sprint(mgv) && !(len(igv) == 0 && len(mgv) == 0) {
				eq := len(igv) == len(mgv)
				for i := 0; eq && i < len(igv); i++ {
					if len(igv[i]) != len(mgv[i]) {
						eq = false
						break
					}
					for j := range igv[i] {
						if igv[i][j] != mgv[i][j] {
							eq = false
						}
					}
				}
				if !eq {
					fs = append(fs, Finding{Kind: "mismatch", Region: "fswc.gets", Detail: "GetAccounts snapshots differ: impl=" + string(ig) + " model=" + string(mg)})
				}
			}
			return fs
		}})
}
