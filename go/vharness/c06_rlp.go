//go:build verif

package main

import (
	"fmt"

	"github.com/hyperledger/firefly-signer/pkg/rlp"
)

func elemToJSON(e rlp.Element) any {
	if e == nil {
		return nil
	}
	if e.IsList() {
		l := e.(rlp.List)
		out := make([]any, 0, len(l))
		for _, c := range l {
			out = append(out, elemToJSON(c))
		}
		return out
	}
	return hx(e.(rlp.Data))
}

func jsonToElem(v any) rlp.Element {
	switch t := v.(type) {
	case string:
		return rlp.Data(unhx(t))
	case []any:
		l := rlp.List{}
		for _, c := range t {
			l = append(l, jsonToElem(c))
		}
		return l
	}
	return rlp.Data{}
}

// aliasedElem builds the tree with all Data elements laid out consecutively in one shared buffer.
func aliasedElem(v any) rlp.Element {
	var total int
	var count func(v any)
	count = func(v any) {
		switch t := v.(type) {
		case string:
			total += len(t) / 2
		case []any:
			for _, c := range t {
				count(c)
			}
		}
	}
	count(v)
	buf := make([]byte, 0, total+64)
	var build func(v any) rlp.Element
	build = func(v any) rlp.Element {
		switch t := v.(type) {
		case string:
			b := unhx(t)
			start := len(buf)
			buf = append(buf, b...)
			return rlp.Data(buf[start:len(buf)]) // cap extends over everything that follows
		case []any:
			l := rlp.List{}
			for _, c := range t {
				l = append(l, build(c))
			}
			return l
		}
		return rlp.Data{}
	}
	return build(v)
}

func implRlpDecode(b []byte) any {
	el, pos, err := rlp.Decode(b)
	if err != nil {
		return "err"
	}
	return ok(map[string]any{"item": elemToJSON(el), "pos": pos})
}

var rlpLens = []int{0, 1, 2, 54, 55, 56, 57, 255, 256, 257, 65535, 65536, 65537}

func genRlpString(r *Rng, max int) []byte {
	switch r.Intn(10) {
	case 0:
		return []byte{}
	case 1:
		return []byte{byte(r.Intn(0x80))}
	case 2:
		return []byte{byte(0x80 + r.Intn(0x80))}
	case 3, 4, 5:
		n := Pick(r, rlpLens)
		if n > max {
			n = max
		}
		return r.Bytes(n)
	default:
		return r.Bytes(r.LogLen(max))
	}
}

// genRlpTree builds a tree whose total size stays near `budget` bytes.
func genRlpTree(r *Rng, depth int, budget int) any {
	if depth == 0 || r.Intn(3) == 0 {
		return hx(genRlpString(r, budget))
	}
	n := r.Intn(6)
	if r.Intn(8) == 0 {
		n = 0
	}
	out := make([]any, 0, n)
	for i := 0; i < n; i++ {
		out = append(out, genRlpTree(r, depth-1, budget/(n+1)+1))
	}
	return out
}

// a list whose payload has exactly `n` bytes (built from short strings), for threshold crossing
func listWithPayload(r *Rng, n int) any {
	out := []any{}
	for n > 0 {
		k := 1 + r.Intn(40)
		if k > n {
			k = n
		}
		if k == 1 {
			out = append(out, hx([]byte{byte(r.Intn(0x80))}))
			n--
			continue
		}
		// a (k-1)-byte string encodes to k bytes when 2 <= k-1 <= 55, or k-1==1 && >=0x80 -> 2 bytes
		if k == 2 {
			out = append(out, hx([]byte{byte(0x80 + r.Intn(0x80))}))
		} else {
			out = append(out, hx(r.Bytes(k-1)))
		}
		n -= k
	}
	return out
}

func init() {
	register(&Suite{
		Prop:     "C06",
		Parallel: true,
		Gen: func(c *Ctx) {
			r := c.R
			nTrees, nMut, nRand, maxStr := 1500, 4000, 3000, 1<<17
			if c.Thorough() {
				nTrees, nMut, nRand, maxStr = 20000, 60000, 60000, 1<<21
			}
			// 1. trees: encode + round trip with trailing bytes
			var encs [][]byte
			for i := 0; i < nTrees; i++ {
				var t any
				switch {
				case i < len(rlpLens)*2:
					n := rlpLens[i/2]
					if i%2 == 0 {
						t = hx(r.Bytes(n))
					} else {
						t = listWithPayload(r, n)
					}
					c.Tags[fmt.Sprintf("tree.boundary.%d", n)]++
				case (i == 57 || i == 107) && c.Thorough(): // two of them: each costs ~100 MB of JSON on both sides
					t = hx(r.Bytes(1 << 24)) // the quantifier's largest string
					c.Tags["tree.str.2^24"]++
				default:
					t = genRlpTree(r, 1+r.Intn(8), r.LogLen(maxStr))
				}
				rest := r.Bytes(r.Intn(4) * r.Intn(20))
				c.Add(map[string]any{"op": "rlp.roundtrip", "item": t, "rest": hx(rest)}, "tree")
				encs = append(encs, jsonToElem(t).Encode())
			}
			// 1b. lists of short strings incl. single bytes < 0x80 in first position (aliasing-sensitive shapes)
			for i := 0; i < 300; i++ {
				k := 1 + r.Intn(5)
				l := []any{hx([]byte{byte(r.Intn(0x80))})}
				for q := 0; q < k; q++ {
					l = append(l, hx(r.Bytes(r.Intn(4))))
				}
				c.Add(map[string]any{"op": "rlp.roundtrip", "item": l, "rest": ""}, "tree.smalllist")
			}
			// 1c. shapes the recursive generator never reaches: wide and shallow (many sibling lists, the shape of an
			// access list or of a block body), deep and narrow, and combs (a sibling list next to every level of nesting)
			widths := []int{16, 31, 32, 33, 40, 64, 100, 255, 256, 300}
			depths := []int{16, 31, 32, 33, 34, 48, 64, 65, 100, 128, 200}
			if c.Thorough() {
				widths = append(widths, 1000, 1024, 1025, 5000)
				depths = append(depths, 256, 257, 500)
			}
			for _, w := range widths {
				for variant := 0; variant < 3; variant++ {
					l := make([]any, 0, w)
					for q := 0; q < w; q++ {
						switch variant {
						case 0:
							l = append(l, []any{}) // w empty lists
						case 1:
							l = append(l, []any{hx(r.Bytes(r.Intn(3))), []any{hx(r.Bytes(20))}}) // access-list-like entries
						default:
							if r.Bool() {
								l = append(l, []any{hx(r.Bytes(r.Intn(4)))})
							} else {
								l = append(l, hx(r.Bytes(r.Intn(4))))
							}
						}
					}
					c.Add(map[string]any{"op": "rlp.roundtrip", "item": l, "rest": hx(r.Bytes(r.Intn(3)))}, "tree.wide")
				}
			}
			for _, d := range depths {
				var deep any = hx(r.Bytes(r.Intn(3)))
				var comb any = []any{}
				for q := 0; q < d; q++ {
					deep = []any{deep}
					comb = []any{[]any{}, comb, hx(r.Bytes(r.Intn(2)))}
				}
				c.Add(map[string]any{"op": "rlp.roundtrip", "item": deep, "rest": ""}, "tree.deep")
				c.Add(map[string]any{"op": "rlp.roundtrip", "item": comb, "rest": ""}, "tree.comb")
			}
			// 2. exhaustive short byte strings
			maxLen := 2
			if c.Thorough() {
				maxLen = 3
			}
			c.Add(map[string]any{"op": "rlp.decode", "hex": ""}, "exh")
			// all strings of 1 and 2 bytes; of 3 bytes (thorough) those whose first byte sits at a boundary of the
			// prefix classes (all 16.7M cost ~25 GB of requests held in memory for no additional structure)
			lead3 := map[byte]bool{}
			for _, b0 := range []byte{0x00, 0x01, 0x7f, 0x80, 0x81, 0x82, 0xb7, 0xb8, 0xb9, 0xba, 0xbf, 0xc0, 0xc1, 0xc2, 0xc3, 0xf7, 0xf8, 0xf9, 0xfa, 0xff} {
				lead3[b0] = true
			}
			for l := 1; l <= maxLen; l++ {
				total := 1 << (8 * l)
				for v := 0; v < total; v++ {
					b := make([]byte, l)
					for k := 0; k < l; k++ {
						b[k] = byte(v >> (8 * (l - 1 - k)))
					}
					if l == 3 && !lead3[b[0]] {
						continue
					}
					c.Add(map[string]any{"op": "rlp.decode", "hex": hx(b)}, "exh")
				}
			}
			c.Notes["exhaustive_len_le"] = maxLen
			// 3. mutated encodings
			for i := 0; i < nMut; i++ {
				e := append([]byte{}, encs[r.Intn(len(encs))]...)
				if len(e) > 70000 {
					e = e[:70000]
				}
				if len(e) == 0 {
					continue
				}
				tag := ""
				switch r.Intn(7) {
				case 0: // truncate
					e = e[:r.Intn(len(e))]
					tag = "mut.trunc"
				case 1: // prefix byte swept
					e[0] = byte(r.Intn(256))
					tag = "mut.prefix"
				case 2: // length byte +-1
					p := r.Intn(min(len(e), 10))
					e[p] += byte(1 + 254*r.Intn(2))
					tag = "mut.len"
				case 3: // non-minimal long form: prefix 0xb8+k / 0xf8+k with leading zero length
					k := 1 + r.Intn(8)
					base := byte(0xb7)
					if r.Bool() {
						base = 0xf7
					}
					n := r.Intn(70)
					hdr := []byte{base + byte(k)}
					lb := make([]byte, k)
					lb[k-1] = byte(n)
					if r.Intn(3) == 0 {
						lb[0] = byte(r.Intn(256))
					}
					e = append(append(hdr, lb...), r.Bytes(n+r.Intn(3))...)
					tag = "mut.longform"
				case 4: // random byte flip anywhere
					e[r.Intn(len(e))] = byte(r.Intn(256))
					tag = "mut.flip"
				case 5: // extend
					e = append(e, r.Bytes(1+r.Intn(5))...)
					tag = "mut.extend"
				case 6: // wrap in a list header with a wrong length
					n := len(e) + r.Intn(5) - 2
					if n < 0 {
						n = 0
					}
					if n <= 55 {
						e = append([]byte{0xc0 + byte(n)}, e...)
					} else {
						e = append([]byte{0xf9, byte(n >> 8), byte(n)}, e...)
					}
					tag = "mut.wrap"
				}
				c.Add(map[string]any{"op": "rlp.decode", "hex": hx(e)}, tag)
			}
			// 4. arbitrary bytes, biased to structural prefixes
			for i := 0; i < nRand; i++ {
				n := r.LogLen(4096)
				if c.Thorough() && i%500 == 0 {
					n = 1 << 20
				}
				b := r.Bytes(n)
				if n > 0 && r.Bool() {
					b[0] = Pick(r, []byte{0x7f, 0x80, 0x81, 0xb7, 0xb8, 0xb9, 0xbf, 0xc0, 0xc1, 0xf7, 0xf8, 0xf9, 0xff})
					for k := 1; k < n && k < 9; k++ {
						if r.Intn(3) == 0 {
							b[k] = 0
						}
					}
				}
				c.Add(map[string]any{"op": "rlp.decode", "hex": hx(b)}, "rand")
			}
		},
		Impl: func(req map[string]any) any {
			switch str(req, "op") {
			case "rlp.decode":
				return implRlpDecode(unhx(str(req, "hex")))
			case "rlp.roundtrip":
				el := jsonToElem(req["item"])
				enc := el.Encode()
				full := append(append([]byte{}, enc...), unhx(str(req, "rest"))...)
				// the same tree again, with every byte string a sub-slice of ONE backing buffer (cap > len), as a
				// caller slicing fields out of a message would build it: encoding must not depend on, or write to, it
				al := aliasedElem(req["item"])
				enc2 := al.Encode()
				out := map[string]any{"enc": hx(enc), "dec": implRlpDecode(full)}
				if hx(enc2) != hx(enc) {
					out["aliasedEnc"] = hx(enc2)
				}
				if !same(elemToJSON(al), req["item"]) {
					out["mutated"] = true
				}
				return out
			}
			return "bad-op"
		},
		Judge: func(c *Ctx, req map[string]any, impl any, orc map[string]any) []Finding {
			var fs []Finding
			switch str(req, "op") {
			case "rlp.roundtrip":
				m := impl.(map[string]any)
				if !same(m["enc"], orc["modelEnc"]) {
					fs = append(fs, Finding{Kind: "mismatch", Region: "rlp.encode", Detail: "Encode() differs from Model.enc"})
				}
				if !same(m["enc"], orc["specEnc"]) {
					fs = append(fs, Finding{Kind: "violation", Region: "rlp.encode", Detail: "Encode() is not the Yellow-Paper encoding"})
				}
				if !same(m["dec"], orc["modelDec"]) {
					fs = append(fs, Finding{Kind: "mismatch", Region: "rlp.decode", Detail: "Decode(enc++rest) differs from Model.Decode"})
				}
				if m["aliasedEnc"] != nil || m["mutated"] == true {
					fs = append(fs, Finding{Kind: "violation", Region: "rlp.encode.aliasing", Detail: "Encode() of a tree whose strings share a backing array differs from the canonical encoding or modified the caller's tree"})
				}
				if !same(m["dec"], orc["specDec"]) {
					fs = append(fs, Finding{Kind: "violation", Region: "rlp.roundtrip", Detail: "Decode(Encode(t)++rest) is not (t, len)"})
				}
			case "rlp.decode":
				if !same(impl, orc["model"]) {
					fs = append(fs, Finding{Kind: "mismatch", Region: "rlp.decode", Detail: "Decode differs from Model.Decode"})
				}
				if impl == "panic" {
					fs = append(fs, Finding{Kind: "violation", Region: "rlp.decode.panic", Detail: "Decode panicked"})
				}
				// strict decoder acceptance (Spec): canonical encodings must be accepted with the same tree
				if st, okk := orc["strict"]; okk && st != nil {
					if !same(impl, ok(st)) {
						fs = append(fs, Finding{Kind: "violation", Region: "rlp.decode.strict", Detail: "canonical input not decoded to the strict decoder's tree"})
					}
				}
				// stability and bounds, judged on the implementation itself
				if m, isok := impl.(map[string]any); isok {
					o := m["ok"].(map[string]any)
					pos := o["pos"].(int)
					in := unhx(str(req, "hex"))
					if pos < 0 || pos > len(in) {
						fs = append(fs, Finding{Kind: "violation", Region: "rlp.decode.bounds", Detail: "position outside input"})
					}
					if o["item"] != nil {
						re := jsonToElem(o["item"]).Encode()
						again := implRlpDecode(re)
						if !same(again, ok(map[string]any{"item": o["item"], "pos": len(re)})) {
							fs = append(fs, Finding{Kind: "violation", Region: "rlp.decode.stable", Detail: "re-encode/re-decode not stable"})
						}
					}
				}
			}
			return fs
		},
		Shrink: func(req map[string]any) []map[string]any {
			if str(req, "op") != "rlp.decode" {
				return nil
			}
			b := unhx(str(req, "hex"))
			var out []map[string]any
			if len(b) > 1 {
				out = append(out, map[string]any{"op": "rlp.decode", "hex": hx(b[:len(b)/2])})
				out = append(out, map[string]any{"op": "rlp.decode", "hex": hx(b[:len(b)-1])})
				out = append(out, map[string]any{"op": "rlp.decode", "hex": hx(b[1:])})
			}
			return out
		},
	})
}
