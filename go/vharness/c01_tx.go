//go:build verif

package main

import (
	"context"
	"encoding/json"
	"math/big"

	"github.com/hyperledger/firefly-signer/pkg/ethsigner"
	"github.com/hyperledger/firefly-signer/pkg/ethtypes"
	"github.com/hyperledger/firefly-signer/pkg/rlp"
	"github.com/hyperledger/firefly-signer/pkg/secp256k1"
)

func hexIntJSON(h *ethtypes.HexInteger) any {
	if h == nil {
		return nil
	}
	return h.BigInt().String()
}

func txToJSON(t *ethsigner.Transaction) map[string]any {
	m := map[string]any{
		"nonce": hexIntJSON(t.Nonce), "gasPrice": hexIntJSON(t.GasPrice), "tip": hexIntJSON(t.MaxPriorityFeePerGas),
		"feeCap": hexIntJSON(t.MaxFeePerGas), "gasLimit": hexIntJSON(t.GasLimit), "value": hexIntJSON(t.Value),
		"data": hx(t.Data), "to": nil,
	}
	if t.To != nil {
		m["to"] = hx(t.To[:])
	}
	return m
}

func jsonHexInt(v any) *ethtypes.HexInteger {
	s, isStr := v.(string)
	if !isStr {
		return nil
	}
	z, _ := new(big.Int).SetString(s, 10)
	return (*ethtypes.HexInteger)(z)
}

func jsonToTx(m map[string]any) *ethsigner.Transaction {
	t := &ethsigner.Transaction{
		Nonce: jsonHexInt(m["nonce"]), GasPrice: jsonHexInt(m["gasPrice"]), MaxPriorityFeePerGas: jsonHexInt(m["tip"]),
		MaxFeePerGas: jsonHexInt(m["feeCap"]), GasLimit: jsonHexInt(m["gasLimit"]), Value: jsonHexInt(m["value"]),
	}
	if s, isStr := m["data"].(string); isStr {
		t.Data = unhx(s)
	}
	if s, isStr := m["to"].(string); isStr {
		a := new(ethtypes.Address0xHex)
		copy(a[:], unhx(s))
		t.To = a
	}
	return t
}

var two256m1 = new(big.Int).Sub(new(big.Int).Lsh(big.NewInt(1), 256), big.NewInt(1))

func genUint(r *Rng) any {
	switch r.Intn(12) {
	case 0:
		return nil
	case 1:
		return "0"
	case 2:
		return Pick(r, []string{"1", "127", "128", "255", "256", "65535", "65536"})
	case 3:
		return new(big.Int).Lsh(big.NewInt(1), uint(8*r.Intn(32))).String()
	case 4:
		return new(big.Int).Sub(new(big.Int).Lsh(big.NewInt(1), uint(8*(1+r.Intn(32)))), big.NewInt(1)).String()
	case 5:
		return two256m1.String()
	case 6:
		return new(big.Int).Lsh(big.NewInt(1), 255).String()
	case 7:
		return new(big.Int).SetUint64(r.U64()).String()
	default:
		return new(big.Int).SetBytes(r.Bytes(1 + r.Intn(32))).String()
	}
}

var dataLens = []int{0, 1, 1, 2, 55, 56, 255, 256, 65535, 65536}

func genTxJSON(r *Rng, big1559 bool) map[string]any {
	m := map[string]any{"nonce": genUint(r), "gasPrice": genUint(r), "gasLimit": genUint(r), "value": genUint(r), "tip": nil, "feeCap": nil, "to": nil}
	switch r.Intn(4) {
	case 0:
		m["tip"], m["feeCap"] = genUint(r), genUint(r)
	case 1:
		m["tip"] = "0"
		m["feeCap"] = "0"
	case 2:
		m["feeCap"] = genUint(r)
	}
	switch r.Intn(4) {
	case 0:
	case 1:
		m["to"] = hx(make([]byte, 20))
	case 2:
		a := r.Bytes(20)
		a[0], a[1] = 0, 0
		m["to"] = hx(a)
	default:
		m["to"] = hx(r.Bytes(20))
	}
	n := Pick(r, dataLens)
	if r.Intn(3) == 0 {
		n = r.LogLen(5000)
	}
	d := r.Bytes(n)
	if n == 1 && r.Bool() {
		d[0] &= 0x7f
	}
	m["data"] = hx(d)
	return m
}

var txModes = []string{"legacyOriginal", "eip155", "eip1559", "auto"}

func payloadFor(t *ethsigner.Transaction, mode string, cid int64) []byte {
	switch mode {
	case "legacyOriginal":
		return t.SignaturePayloadLegacyOriginal().Bytes()
	case "eip155":
		return t.SignaturePayloadLegacyEIP155(cid).Bytes()
	case "eip1559":
		return t.SignaturePayloadEIP1559(cid).Bytes()
	}
	return t.SignaturePayload(cid).Bytes()
}

func signFor(t *ethsigner.Transaction, kp *secp256k1.KeyPair, mode string, cid int64) ([]byte, error) {
	switch mode {
	case "legacyOriginal":
		return t.SignLegacyOriginal(kp)
	case "eip155":
		return t.SignLegacyEIP155(kp, cid)
	case "eip1559":
		return t.SignEIP1559(kp, cid)
	}
	return t.Sign(kp, cid)
}

func recoverOut(a *ethtypes.Address0xHex, tx *ethsigner.TransactionWithOriginalPayload, err error) any {
	if err != nil {
		return "err"
	}
	return ok(map[string]any{"addr": hx(a[:]), "tx": txToJSON(tx.Transaction), "payload": hx(tx.Payload)})
}

func addTxSignCase(c *Ctx, txj map[string]any, key []byte, mode string, cid int64, tag string) []byte {
	t := jsonToTx(txj)
	kp := secp256k1.KeyPairFromBytes(key)
	sig, err := kp.Sign(payloadFor(t, mode, cid))
	if err != nil {
		return nil
	}
	c.Add(map[string]any{"op": "tx.sign", "tx": txj, "mode": mode, "cid": big.NewInt(cid).String(), "key": hx(key),
		"V": sig.V.String(), "R": sig.R.String(), "S": sig.S.String()}, tag, "mode."+mode)
	raw, _ := signFor(jsonToTx(txj), kp, mode, cid)
	return raw
}

func init() {
	register(&Suite{
		Prop:     "C01",
		Parallel: true,
		Gen: func(c *Ctx) {
			r := c.R
			n := 250
			if c.Thorough() {
				n = 8000
			}
			for i := 0; i < n; i++ {
				txj := genTxJSON(r, false)
				addTxSignCase(c, txj, genKey(r), txModes[i%4], Pick(r, chainIDs), "tx.random")
			}
			// signatures whose R or S has leading zero bytes: search nonces
			want := 6
			if c.Thorough() {
				want = 60
			}
			found := 0
			for try := 0; try < 20000 && found < want; try++ {
				txj := genTxJSON(r, false)
				txj["data"] = hx(r.Bytes(r.Intn(40)))
				key := genKey(r)
				mode := txModes[try%4]
				cid := Pick(r, chainIDs)
				t := jsonToTx(txj)
				kp := secp256k1.KeyPairFromBytes(key)
				sig, err := kp.Sign(payloadFor(t, mode, cid))
				if err != nil {
					continue
				}
				if sig.R.BitLen() <= 248 || sig.S.BitLen() <= 248 {
					addTxSignCase(c, txj, key, mode, cid, "tx.leadingZeroRS")
					found++
				}
			}
			c.Notes["leading_zero_RS_cases"] = found
		},
		Impl: func(req map[string]any) any {
			txj := req["tx"].(map[string]any)
			mode := str(req, "mode")
			cid := cidOf(req)
			t := jsonToTx(txj)
			before, _ := json.Marshal(txToJSON(t))
			kp := secp256k1.KeyPairFromBytes(unhx(str(req, "key")))
			payload := payloadFor(t, mode, cid)
			raw, err := signFor(t, kp, mode, cid)
			if err != nil {
				return "err"
			}
			raw2, _ := signFor(t, kp, mode, cid)
			after, _ := json.Marshal(txToJSON(t))
			a, tx, rerr := ethsigner.RecoverRawTransaction(context.Background(), raw, cid)
			return ok(map[string]any{"payload": hx(payload), "signed": hx(raw), "deterministic": hx(raw) == hx(raw2),
				"unmodified": string(before) == string(after), "recover": recoverOut(a, tx, rerr)})
		},
		Judge: func(c *Ctx, req map[string]any, impl any, orc map[string]any) []Finding {
			var fs []Finding
			m, isok := impl.(map[string]any)
			if !isok {
				return []Finding{{Kind: "violation", Region: "tx.sign.fails", Detail: "signing failed or panicked"}}
			}
			o := m["ok"].(map[string]any)
			if o["payload"] != orc["modelPayload"] {
				fs = append(fs, Finding{Kind: "mismatch", Region: "tx.payload", Detail: "signature payload differs from model"})
			}
			if o["payload"] != orc["specPayload"] {
				fs = append(fs, Finding{Kind: "violation", Region: "tx.payload", Detail: "signature payload is not the specification preimage"})
			}
			if o["signed"] != orc["modelSigned"] {
				fs = append(fs, Finding{Kind: "mismatch", Region: "tx.signed", Detail: "signed bytes differ from model"})
			}
			if o["signed"] != orc["specSigned"] {
				fs = append(fs, Finding{Kind: "violation", Region: "tx.signed", Detail: "signed bytes are not the specification wire format"})
			}
			if orc["sigOK"] != true {
				fs = append(fs, Finding{Kind: "violation", Region: "tx.sig", Detail: "signature not canonical low-S / does not verify over keccak(spec preimage) for the key"})
			}
			if o["deterministic"] != true {
				fs = append(fs, Finding{Kind: "violation", Region: "tx.determinism", Detail: "signing twice gave different bytes"})
			}
			if o["unmodified"] != true {
				fs = append(fs, Finding{Kind: "violation", Region: "tx.mutated", Detail: "caller's transaction was modified"})
			}
			if !same(o["recover"], orc["modelRecover"]) {
				fs = append(fs, Finding{Kind: "mismatch", Region: "tx.recover", Detail: "RecoverRawTransaction differs from model"})
			}
			// Tier A: recovery returns signer, the same field values and the spec preimage
			txj := req["tx"].(map[string]any)
			mode := str(req, "mode")
			bigS := func(k string) string {
				if s, isStr := txj[k].(string); isStr {
					return s
				}
				return "0"
			}
			is1559 := mode == "eip1559" || (mode == "auto" && (bigS("tip") != "0" || bigS("feeCap") != "0"))
			exp := map[string]any{"nonce": bigS("nonce"), "gasLimit": bigS("gasLimit"), "value": bigS("value"), "to": txj["to"], "data": txj["data"],
				"gasPrice": nil, "tip": nil, "feeCap": nil}
			if is1559 {
				exp["tip"], exp["feeCap"] = bigS("tip"), bigS("feeCap")
			} else {
				exp["gasPrice"] = bigS("gasPrice")
			}
			want := ok(map[string]any{"addr": orc["addr"], "tx": exp, "payload": orc["specPayload"]})
			if !same(o["recover"], want) {
				fs = append(fs, Finding{Kind: "violation", Region: "tx.recover.roundtrip", Detail: "recovery of the signed bytes did not return (signer, same fields, spec preimage)"})
			}
			return fs
		},
	})

	register(&Suite{
		Prop:     "C10",
		Parallel: true,
		Gen: func(c *Ctx) {
			r := c.R
			cids := []int64{0, 1, 1 << 53}
			// exhaustive short inputs
			maxLen := 2
			c.Add(map[string]any{"op": "tx.recover", "hex": "", "cid": "1", "entry": "raw"}, "exh")
			for l := 1; l <= maxLen; l++ {
				for v := 0; v < 1<<(8*l); v++ {
					b := make([]byte, l)
					for k := 0; k < l; k++ {
						b[k] = byte(v >> (8 * (l - 1 - k)))
					}
					for _, cid := range cids {
						if l == 2 && cid != 1 && !c.Thorough() {
							continue
						}
						c.Add(map[string]any{"op": "tx.recover", "hex": hx(b), "cid": big.NewInt(cid).String(), "entry": "raw"}, "exh")
					}
					if l == 1 || v%7 == 0 {
						c.Add(map[string]any{"op": "tx.recover", "hex": hx(b), "cid": "1", "entry": "legacy"}, "exh.legacy")
						c.Add(map[string]any{"op": "tx.recover", "hex": hx(b), "cid": "1", "entry": "1559"}, "exh.1559")
						c.Add(map[string]any{"op": "tx.decode1559", "hex": hx(b), "cid": "1"}, "exh.decode1559")
					}
				}
			}
			// structure-aware mutation of valid signed transactions
			n := 400
			if c.Thorough() {
				n = 12000
			}
			for i := 0; i < n; i++ {
				txj := genTxJSON(r, false)
				if r.Intn(3) > 0 {
					txj["data"] = hx(r.Bytes(r.Intn(80)))
				}
				key := genKey(r)
				mode := txModes[r.Intn(4)]
				cid := Pick(r, chainIDs)
				t := jsonToTx(txj)
				kp := secp256k1.KeyPairFromBytes(key)
				raw, err := signFor(t, kp, mode, cid)
				if err != nil {
					continue
				}
				entry := "raw"
				c.Add(map[string]any{"op": "tx.recover", "hex": hx(raw), "cid": big.NewInt(cid).String(), "entry": entry}, "valid")
				typed := raw[0] == 0x02
				body := raw
				if typed {
					body = raw[1:]
				}
				el, _, derr := rlp.Decode(body)
				if derr != nil {
					continue
				}
				tree := elemToJSON(el).([]any)
				for k := 0; k < 6; k++ {
					tr := append([]any{}, tree...)
					tag := ""
					idx := r.Intn(len(tr))
					switch r.Intn(12) {
					case 0:
						tr[idx] = []any{}
						tag = "mut.elem->emptylist"
					case 1:
						tr[idx] = []any{tr[idx]}
						tag = "mut.elem->list"
					case 2:
						tr[idx] = ""
						tag = "mut.elem->empty"
					case 3:
						tr[idx] = hx(r.Bytes(33 + r.Intn(8)))
						tag = "mut.elem->overlong"
					case 4:
						tr = append(tr[:idx], tr[idx+1:]...)
						tag = "mut.drop"
					case 5:
						tr = append(tr, hx(r.Bytes(r.Intn(4))))
						tag = "mut.add"
					case 6: // R / S of 0..40 bytes
						p := len(tr) - 1 - r.Intn(2)
						tr[p] = hx(r.Bytes(r.Intn(41)))
						tag = "mut.rs-len"
					case 7: // V arbitrary
						p := len(tr) - 3
						base := 35 + 2*cid
						v := Pick(r, []*big.Int{big.NewInt(0), big.NewInt(1), big.NewInt(26), big.NewInt(27), big.NewInt(28), big.NewInt(29),
							big.NewInt(base - 1), big.NewInt(base), big.NewInt(base + 1), big.NewInt(base + 2), big.NewInt(base + 256), big.NewInt(base + 257),
							new(big.Int).Lsh(big.NewInt(1), 63), new(big.Int).Add(new(big.Int).Lsh(big.NewInt(1), 64), big.NewInt(27))})
						if p >= 0 {
							tr[p] = hx(v.Bytes())
						}
						tag = "mut.V"
					case 8: // leading zero on an integer field / wrong-size to
						if s, isStr := tr[idx].(string); isStr {
							tr[idx] = "00" + s
						}
						tag = "mut.leadingzero"
					case 9: // to of 19/21 bytes
						p := 3
						if typed {
							p = 5
						}
						if p < len(tr) {
							tr[p] = hx(r.Bytes(Pick(r, []int{1, 19, 21, 32})))
						}
						tag = "mut.to-len"
					case 10: // wrong embedded chain id (typed) / swap chain id arg
						if typed {
							tr[0] = hx(big.NewInt(cid + 1 + int64(r.Intn(3))).Bytes())
							if r.Intn(4) == 0 {
								tr[0] = hx(new(big.Int).Add(new(big.Int).Lsh(big.NewInt(1), 64), big.NewInt(cid)).Bytes())
							}
						}
						tag = "mut.chainid"
					case 11: // access list non-empty (typed)
						if typed && len(tr) > 8 {
							tr[8] = []any{[]any{hx(r.Bytes(20)), []any{hx(r.Bytes(32))}}}
						}
						tag = "mut.accesslist"
					}
					enc := jsonToElem(tr).Encode()
					if typed {
						enc = append([]byte{0x02}, enc...)
					}
					if r.Intn(10) == 0 {
						enc[0] = byte(r.Intn(256))
						tag += "+typebyte"
					}
					c.Add(map[string]any{"op": "tx.recover", "hex": hx(enc), "cid": big.NewInt(cid).String(), "entry": Pick(r, []string{"raw", "raw", "raw", "legacy", "1559"})}, tag)
					if typed && r.Intn(4) == 0 {
						c.Add(map[string]any{"op": "tx.decode1559", "hex": hx(enc), "cid": big.NewInt(cid).String()}, "decode1559")
					}
				}
				// truncation at every offset (short txs) or random offsets
				step := 1
				if len(raw) > 150 {
					step = len(raw)/40 + 1
				}
				for off := 0; off < len(raw); off += step {
					c.Add(map[string]any{"op": "tx.recover", "hex": hx(raw[:off]), "cid": big.NewInt(cid).String(), "entry": "raw"}, "trunc")
					if i%10 != 0 {
						off += step * 3
					}
				}
				// wrong chain id argument
				c.Add(map[string]any{"op": "tx.recover", "hex": hx(raw), "cid": big.NewInt(cid + 1).String(), "entry": "raw"}, "wrongcid")
				// the same magnitude with the other sign, zero, and the "not configured" default -1 are other chain ids too
				c.Add(map[string]any{"op": "tx.recover", "hex": hx(raw), "cid": big.NewInt(-cid).String(), "entry": Pick(r, []string{"raw", "1559"})}, "wrongcid.neg")
				c.Add(map[string]any{"op": "tx.recover", "hex": hx(raw), "cid": Pick(r, []string{"0", "-1"}), "entry": "raw"}, "wrongcid.neg")
			}
			// arbitrary bytes
			m := 1500
			if c.Thorough() {
				m = 40000
			}
			for i := 0; i < m; i++ {
				b := r.Bytes(r.LogLen(2000))
				if len(b) > 0 {
					b[0] = Pick(r, []byte{0x02, 0xc7, 0xc9, 0xcc, 0xf8, 0xf9, byte(r.Intn(256))})
				}
				c.Add(map[string]any{"op": "tx.recover", "hex": hx(b), "cid": "1", "entry": "raw"}, "rand")
			}
		},
		Impl: func(req map[string]any) any {
			raw := unhx(str(req, "hex"))
			cid := cidOf(req)
			ctx := context.Background()
			if str(req, "op") == "tx.decode1559" {
				tx, err := ethsigner.DecodeEIP1559SignaturePayload(ctx, raw, cid)
				if err != nil {
					return "err"
				}
				return ok(txToJSON(tx))
			}
			switch str(req, "entry") {
			case "legacy":
				return recoverOut(ethsigner.RecoverLegacyRawTransaction(ctx, raw, cid))
			case "1559":
				return recoverOut(ethsigner.RecoverEIP1559Transaction(ctx, raw, cid))
			}
			return recoverOut(ethsigner.RecoverRawTransaction(ctx, raw, cid))
		},
		Judge: func(c *Ctx, req map[string]any, impl any, orc map[string]any) []Finding {
			var fs []Finding
			if !same(impl, orc["model"]) {
				fs = append(fs, Finding{Kind: "mismatch", Region: str(req, "op"), Detail: "recovery differs from model"})
			}
			if impl == "panic" {
				fs = append(fs, Finding{Kind: "violation", Region: "tx.recover.panic", Detail: "recovery panicked"})
			}
			if im, isok := impl.(map[string]any); isok && str(req, "op") == "tx.recover" && !same(impl, orc["model"]) && c.Ask != nil {
				// the implementation returned something the model does not: ask for the property's verdict on it
				if v := c.Ask(map[string]any{"op": "tx.judge", "hex": req["hex"], "cid": req["cid"], "result": im["ok"]}); v != nil && v["sound"] != true {
					fs = append(fs, Finding{Kind: "violation", Region: "tx.recover.unsound", Detail: "address returned but the signature (V,R,S) of the input does not recover to it over keccak(payload), or payload is not the spec preimage of the returned fields / chain id"})
				}
			}
			if _, isok := impl.(map[string]any); isok && str(req, "op") == "tx.recover" && same(impl, orc["model"]) {
				if orc["sound"] != true {
					fs = append(fs, Finding{Kind: "violation", Region: "tx.recover.unsound", Detail: "address returned but (R,S) of the input does not verify over keccak(payload) for it, or payload is not the spec preimage of the returned fields / chain id"})
				}
			}
			return fs
		},
		Shrink: func(req map[string]any) []map[string]any {
			b := unhx(str(req, "hex"))
			var out []map[string]any
			if len(b) > 1 {
				for _, nb := range [][]byte{b[:len(b)/2], b[:len(b)-1]} {
					m := map[string]any{}
					for k, v := range req {
						m[k] = v
					}
					m["hex"] = hx(nb)
					out = append(out, m)
				}
			}
			return out
		},
	})
}
