//go:build verif

package main

import (
	"bufio"
	"bytes"
	"encoding/hex"
	"encoding/json"
	"fmt"
	"io"
	"os"
	"os/exec"
	"path/filepath"
	"sort"
	"strings"
)

func bytesReader(b []byte) io.Reader { return bytes.NewReader(b) }

// ---- PRNG: splitmix64 ----
type Rng struct{ s uint64 }

func NewRng(seed uint64) *Rng { return &Rng{s: seed*0x9E3779B97F4A7C15 + 0x1234567} }
func (r *Rng) U64() uint64 {
	r.s += 0x9E3779B97F4A7C15
	z := r.s
	z = (z ^ (z >> 30)) * 0xBF58476D1CE4E5B9
	z = (z ^ (z >> 27)) * 0x94D049BB133111EB
	return z ^ (z >> 31)
}
func (r *Rng) Intn(n int) int {
	if n <= 0 {
		return 0
	}
	return int(r.U64() % uint64(n))
}
func (r *Rng) Bool() bool        { return r.U64()&1 == 1 }
func (r *Rng) Chance(p int) bool { return r.Intn(100) < p }
func (r *Rng) Bytes(n int) []byte {
	b := make([]byte, n)
	for i := 0; i < n; i += 8 {
		v := r.U64()
		for j := 0; j < 8 && i+j < n; j++ {
			b[i+j] = byte(v >> (8 * j))
		}
	}
	return b
}
func Pick[T any](r *Rng, xs []T) T { return xs[r.Intn(len(xs))] }

// LogLen draws a length log-uniformly in [0, max].
func (r *Rng) LogLen(max int) int {
	if max <= 0 {
		return 0
	}
	bits := 0
	for (1 << bits) <= max {
		bits++
	}
	b := r.Intn(bits + 1)
	if b == 0 {
		return 0
	}
	v := (1 << (b - 1)) + r.Intn(1<<(b-1))
	if v > max {
		v = max
	}
	return v
}

func hx(b []byte) string { return hex.EncodeToString(b) }
func unhx(s string) []byte {
	b, err := hex.DecodeString(s)
	if err != nil {
		return nil
	}
	return b
}

// ---- oracle process ----
type Oracle struct {
	cmd *exec.Cmd
	in  io.WriteCloser
	out *bufio.Reader
}

func StartOracle(path string) (*Oracle, error) {
	// the Lean driver recurses over lists structurally: megabyte inputs need more than the default 8 MiB stack
	cmd := exec.Command("/bin/sh", "-c", `ulimit -s unlimited 2>/dev/null || ulimit -s 4194304 2>/dev/null; exec "$0"`, path)
	in, err := cmd.StdinPipe()
	if err != nil {
		return nil, err
	}
	outp, err := cmd.StdoutPipe()
	if err != nil {
		return nil, err
	}
	cmd.Stderr = os.Stderr
	if err := cmd.Start(); err != nil {
		return nil, err
	}
	return &Oracle{cmd: cmd, in: in, out: bufio.NewReaderSize(outp, 1<<20)}, nil
}

func (o *Oracle) Close() {
	o.in.Close()
	_ = o.cmd.Wait()
}

// Batch sends all requests and reads one response line per request (writer runs concurrently).
func (o *Oracle) Batch(reqs []map[string]any) ([]map[string]any, error) {
	errc := make(chan error, 1)
	go func() {
		w := bufio.NewWriterSize(o.in, 1<<20)
		for _, r := range reqs {
			b, err := json.Marshal(r)
			if err != nil {
				errc <- err
				return
			}
			w.Write(b)
			w.WriteByte('\n')
		}
		errc <- w.Flush()
	}()
	out := make([]map[string]any, 0, len(reqs))
	for range reqs {
		line, err := o.out.ReadBytes('\n')
		if err != nil {
			return nil, fmt.Errorf("oracle read after %d responses: %w", len(out), err)
		}
		var m map[string]any
		d := json.NewDecoder(bytes.NewReader(line))
		d.UseNumber()
		if err := d.Decode(&m); err != nil {
			return nil, fmt.Errorf("oracle response not JSON: %s", trunc(string(line), 200))
		}
		out = append(out, m)
	}
	if err := <-errc; err != nil {
		return nil, err
	}
	return out, nil
}

func loadCorpus(dir string) []map[string]any {
	var out []map[string]any
	files, _ := filepath.Glob(filepath.Join(dir, "*.jsonl"))
	sort.Strings(files)
	for _, f := range files {
		b, err := os.ReadFile(f)
		if err != nil {
			continue
		}
		for _, line := range strings.Split(string(b), "\n") {
			line = strings.TrimSpace(line)
			if line == "" || strings.HasPrefix(line, "#") {
				continue
			}
			var m map[string]any
			d := json.NewDecoder(strings.NewReader(line))
			d.UseNumber()
			if d.Decode(&m) == nil {
				out = append(out, m)
			}
		}
	}
	return out
}

func loadReplay(path string) []map[string]any {
	b, err := os.ReadFile(path)
	if err != nil {
		fmt.Fprintln(os.Stderr, "replay:", err)
		os.Exit(2)
	}
	var doc map[string]any
	d := json.NewDecoder(bytes.NewReader(b))
	d.UseNumber()
	if err := d.Decode(&doc); err != nil {
		fmt.Fprintln(os.Stderr, "replay:", err)
		os.Exit(2)
	}
	var out []map[string]any
	if r, ok := doc["req"].(map[string]any); ok {
		out = append(out, r)
	}
	if rs, ok := doc["reqs"].([]any); ok {
		for _, r := range rs {
			if m, ok := r.(map[string]any); ok {
				out = append(out, m)
			}
		}
	}
	return out
}

func str(m map[string]any, k string) string {
	s, _ := m[k].(string)
	return s
}

func hmacSHA256(key, data []byte) []byte {
	m := hmacNew(key)
	m.Write(data)
	return m.Sum(nil)
}
