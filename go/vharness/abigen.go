//go:build verif

package main

import (
	"encoding/json"
	"fmt"
	"math"
	"math/big"
	"sort"
	"strings"

	"github.com/hyperledger/firefly-signer/pkg/abi"
)

// ---- abstract ABI types and values shared by the C02 / C03 / C11 / C12 / C20 suites ----

type absTy struct {
	Kind   string // uint int address bool string bytes bytesM function fixed ufixed farr darr tuple
	M, N   int
	Child  *absTy
	Len    int
	Comps  []*absTy
	Name   string
	Index  bool
	IntTyp string // internalType
}

func (t *absTy) typeString() string {
	switch t.Kind {
	case "uint", "int":
		return fmt.Sprintf("%s%d", t.Kind, t.M)
	case "bytesM":
		return fmt.Sprintf("bytes%d", t.M)
	case "fixed", "ufixed":
		return fmt.Sprintf("%s%dx%d", t.Kind, t.M, t.N)
	case "farr":
		return fmt.Sprintf("%s[%d]", t.Child.typeString(), t.Len)
	case "darr":
		return t.Child.typeString() + "[]"
	case "tuple":
		return "tuple"
	}
	return t.Kind
}

// innermost non-array type (carries the components of a tuple array)
func (t *absTy) base() *absTy {
	for t.Kind == "farr" || t.Kind == "darr" {
		t = t.Child
	}
	return t
}

func (t *absTy) param() map[string]any {
	m := map[string]any{"name": t.Name, "type": t.typeString()}
	if t.Index {
		m["indexed"] = true
	}
	if t.IntTyp != "" {
		m["internalType"] = t.IntTyp
	}
	b := t.base()
	if b.Kind == "tuple" {
		comps := []any{}
		for _, c := range b.Comps {
			comps = append(comps, c.param())
		}
		m["components"] = comps
	}
	return m
}

func (t *absTy) hasFixed() bool {
	switch t.Kind {
	case "fixed", "ufixed":
		return true
	case "farr", "darr":
		return t.Child.hasFixed()
	case "tuple":
		for _, c := range t.Comps {
			if c.hasFixed() {
				return true
			}
		}
	}
	return false
}

func (t *absTy) isDynamic() bool {
	switch t.Kind {
	case "string", "bytes", "darr":
		return true
	case "farr":
		return t.Len > 0 && t.Child.isDynamic()
	case "tuple":
		for _, c := range t.Comps {
			if c.isDynamic() {
				return true
			}
		}
	}
	return false
}

type tyOpts struct {
	fixed    bool // allow fixed/ufixed leaves
	zeroArr  bool // allow zero-length fixed arrays
	maxArr   int
	unnamed  bool // some tuple members unnamed
	emptyTup bool
}

func genLeaf(r *Rng, o tyOpts) *absTy {
	k := r.Intn(11)
	if (k == 9 || k == 10) && !o.fixed {
		k = r.Intn(9)
	}
	switch k {
	case 0, 1:
		return &absTy{Kind: "uint", M: 8 * (1 + r.Intn(32))}
	case 2:
		return &absTy{Kind: "int", M: 8 * (1 + r.Intn(32))}
	case 3:
		return &absTy{Kind: "address"}
	case 4:
		return &absTy{Kind: "bool"}
	case 5:
		return &absTy{Kind: "string"}
	case 6:
		return &absTy{Kind: "bytes"}
	case 7:
		return &absTy{Kind: "bytesM", M: 1 + r.Intn(32)}
	case 8:
		return &absTy{Kind: "function"}
	case 9:
		return &absTy{Kind: "fixed", M: 8 * (1 + r.Intn(32)), N: 1 + r.Intn(30)}
	default:
		return &absTy{Kind: "ufixed", M: 8 * (1 + r.Intn(32)), N: 1 + r.Intn(30)}
	}
}

func genTy(r *Rng, depth int, o tyOpts) *absTy {
	if depth <= 0 || r.Intn(5) < 2 {
		return genLeaf(r, o)
	}
	switch r.Intn(3) {
	case 0:
		n := 1 + r.Intn(o.maxArr)
		if o.zeroArr && r.Intn(6) == 0 {
			n = 0
		}
		return &absTy{Kind: "farr", Child: genTy(r, depth-1, o), Len: n}
	case 1:
		return &absTy{Kind: "darr", Child: genTy(r, depth-1, o)}
	default:
		n := 1 + r.Intn(4)
		if o.emptyTup && r.Intn(8) == 0 {
			n = 0
		}
		t := &absTy{Kind: "tuple"}
		for i := 0; i < n; i++ {
			c := genTy(r, depth-1, o)
			c.Name = fmt.Sprintf("m%d", i)
			if o.unnamed && r.Intn(3) == 0 {
				c.Name = ""
			}
			t.Comps = append(t.Comps, c)
		}
		return t
	}
}

// the shapes the properties name explicitly
func namedShapes(r *Rng) [][]*absTy {
	u := func() *absTy { return &absTy{Kind: "uint", M: 256} }
	s := func() *absTy { return &absTy{Kind: "string"} }
	nm := func(t *absTy, n string) *absTy { t.Name = n; return t }
	dynTuple := func() *absTy { return &absTy{Kind: "tuple", Comps: []*absTy{nm(u(), "a"), nm(s(), "b")}} }
	return [][]*absTy{
		// dynamic tuple inside a fixed array inside a tuple
		{nm(&absTy{Kind: "tuple", Comps: []*absTy{nm(&absTy{Kind: "farr", Len: 2, Child: dynTuple()}, "x"), nm(u(), "y")}}, "p")},
		// arrays of arrays
		{nm(&absTy{Kind: "darr", Child: &absTy{Kind: "darr", Child: u()}}, "aa")},
		{nm(&absTy{Kind: "farr", Len: 2, Child: &absTy{Kind: "darr", Child: s()}}, "fa")},
		{nm(&absTy{Kind: "darr", Child: &absTy{Kind: "farr", Len: 3, Child: u()}}, "df")},
		// static tuple in static array
		{nm(&absTy{Kind: "farr", Len: 2, Child: &absTy{Kind: "tuple", Comps: []*absTy{nm(u(), "a"), nm(&absTy{Kind: "bool"}, "b")}}}, "st"), nm(s(), "tail")},
		{nm(s(), "s1"), nm(u(), "n"), nm(&absTy{Kind: "bytes"}, "b1"), nm(&absTy{Kind: "darr", Child: dynTuple()}, "dt")},
	}
}

// ---- abstract values: {"i": dec} | {"b": hex} | {"s": hex} | []any ----

func intBounds(t *absTy) (lo, hi *big.Int) {
	switch t.Kind {
	case "uint":
		return big.NewInt(0), new(big.Int).Sub(pow2(uint(t.M)), big.NewInt(1))
	case "int":
		return new(big.Int).Neg(pow2(uint(t.M - 1))), new(big.Int).Sub(pow2(uint(t.M-1)), big.NewInt(1))
	}
	return big.NewInt(0), big.NewInt(1)
}

func genIntIn(r *Rng, lo, hi *big.Int) *big.Int {
	switch r.Intn(8) {
	case 0:
		return new(big.Int).Set(lo)
	case 1:
		return new(big.Int).Set(hi)
	case 2:
		if lo.Sign() <= 0 && hi.Sign() >= 0 {
			return big.NewInt(0)
		}
	case 3:
		if lo.Cmp(big.NewInt(-1)) <= 0 {
			return big.NewInt(-1)
		}
		return big.NewInt(1)
	case 4:
		if hi.Cmp(big.NewInt(1)) >= 0 {
			return big.NewInt(1)
		}
	}
	span := new(big.Int).Sub(hi, lo)
	span.Add(span, big.NewInt(1))
	v := new(big.Int).SetBytes(r.Bytes(len(span.Bytes()) + 1))
	if r.Intn(3) == 0 {
		v = new(big.Int).SetUint64(r.U64() >> uint(r.Intn(64)))
	}
	v.Mod(v, span)
	return v.Add(v, lo)
}

func utf8String(r *Rng, n int) string {
	var sb strings.Builder
	for sb.Len() < n {
		switch r.Intn(6) {
		case 0:
			sb.WriteRune(rune(0x80 + r.Intn(0x700)))
		case 1:
			sb.WriteRune(Pick(r, []rune{'"', '\\', '<', '>', '&', '\n', 'é', '世', '🙂'}))
		default:
			sb.WriteByte(byte(32 + r.Intn(95)))
		}
	}
	return sb.String()
}

func genVal(r *Rng, t *absTy, maxDyn int) any {
	switch t.Kind {
	case "uint", "int":
		lo, hi := intBounds(t)
		return map[string]any{"i": genIntIn(r, lo, hi).String()}
	case "address":
		b := r.Bytes(20)
		if r.Intn(4) == 0 {
			b[0], b[1] = 0, 0
		}
		return map[string]any{"i": new(big.Int).SetBytes(b).String()}
	case "bool":
		return map[string]any{"i": fmt.Sprint(r.Intn(2))}
	case "string":
		n := Pick(r, []int{0, 1, 31, 32, 33, 64, 65, r.Intn(maxDyn + 1)})
		return map[string]any{"s": hx([]byte(utf8String(r, n)))}
	case "bytes":
		n := Pick(r, []int{0, 1, 31, 32, 33, 64, 65, r.Intn(maxDyn + 1)})
		return map[string]any{"b": hx(r.Bytes(n))}
	case "bytesM":
		return map[string]any{"b": hx(r.Bytes(t.M))}
	case "function":
		return map[string]any{"b": hx(r.Bytes(24))}
	case "farr":
		out := []any{}
		for i := 0; i < t.Len; i++ {
			out = append(out, genVal(r, t.Child, maxDyn))
		}
		return out
	case "darr":
		n := Pick(r, []int{0, 1, 2, 3, r.Intn(5)})
		out := []any{}
		for i := 0; i < n; i++ {
			out = append(out, genVal(r, t.Child, maxDyn))
		}
		return out
	case "tuple":
		out := []any{}
		for _, c := range t.Comps {
			out = append(out, genVal(r, c, maxDyn))
		}
		return out
	}
	return map[string]any{"i": "0"}
}

// ---- rendering a value into an external representation ----
// returns the Go value handed to the implementation and (via extFromGo) its description for the model.
// style: "json" = only what json.Decoder.UseNumber can produce; "go" = Go-typed leaves as well.

func effName(c *absTy, i int) string {
	if c.Name == "" {
		return fmt.Sprint(i)
	}
	return c.Name
}

func renderVal(r *Rng, t *absTy, v any, style string, objects bool) any {
	switch t.Kind {
	case "uint", "int":
		z, _ := new(big.Int).SetString(v.(map[string]any)["i"].(string), 10)
		return renderInt(r, z, style)
	case "address":
		z, _ := new(big.Int).SetString(v.(map[string]any)["i"].(string), 10)
		b := z.FillBytes(make([]byte, 20))
		switch r.Intn(3) {
		case 0:
			return "0x" + hx(b)
		case 1:
			return hx(b)
		default:
			if style == "go" {
				return b
			}
			return "0x" + strings.ToUpper(hx(b))
		}
	case "bool":
		bv := v.(map[string]any)["i"] == "1"
		if r.Intn(3) == 0 {
			if bv {
				return Pick(r, []string{"true", "TRUE", "True"})
			}
			return Pick(r, []string{"false", "FALSE", "no"})
		}
		return bv
	case "string":
		b := unhx(v.(map[string]any)["s"].(string))
		if style == "go" && r.Intn(3) == 0 {
			return b
		}
		return string(b)
	case "bytes", "bytesM", "function":
		b := unhx(v.(map[string]any)["b"].(string))
		if style == "go" && r.Intn(3) == 0 {
			return b
		}
		return Pick(r, []string{"0x", ""}) + hx(b)
	case "farr", "darr":
		out := []any{}
		for _, c := range v.([]any) {
			out = append(out, renderVal(r, t.Child, c, style, objects))
		}
		return out
	case "tuple":
		vs := v.([]any)
		if objects && r.Intn(4) != 0 {
			m := map[string]any{}
			for i, c := range t.Comps {
				m[effName(c, i)] = renderVal(r, c, vs[i], style, objects)
			}
			if r.Intn(4) == 0 {
				m["extra_"+fmt.Sprint(r.Intn(9))] = "ignored"
			}
			return m
		}
		out := []any{}
		for i, c := range t.Comps {
			out = append(out, renderVal(r, c, vs[i], style, objects))
		}
		return out
	}
	return nil
}

func renderInt(r *Rng, z *big.Int, style string) any {
	n := 6
	if style == "go" {
		n = 14
	}
	for {
		switch r.Intn(n) {
		case 0:
			return z.String()
		case 1:
			if z.Sign() >= 0 {
				return "0x" + z.Text(16)
			}
			return "-0x" + new(big.Int).Abs(z).Text(16)
		case 2, 3:
			return json.Number(z.String())
		case 4: // exact exponent spelling
			d := new(big.Int).Abs(z).String()
			t := strings.TrimRight(d, "0")
			sign := ""
			if z.Sign() < 0 {
				sign = "-"
			}
			if t == "" {
				return json.Number("0e0")
			}
			if len(t) > 1 {
				return json.Number(fmt.Sprintf("%s%s.%se%d", sign, t[:1], t[1:], len(d)-1))
			}
			return json.Number(fmt.Sprintf("%s%se%d", sign, t, len(d)-1))
		case 5:
			return z.String() + ".0"
		case 6:
			return new(big.Int).Set(z)
		case 7:
			if z.IsInt64() {
				return z.Int64()
			}
		case 8:
			if z.IsUint64() {
				return z.Uint64()
			}
		case 9:
			if z.IsInt64() && z.Int64() >= math.MinInt32 && z.Int64() <= math.MaxInt32 {
				return int32(z.Int64())
			}
		case 10:
			if z.IsUint64() && z.Uint64() <= 255 {
				return uint8(z.Uint64())
			}
		case 11:
			f, acc := new(big.Float).SetInt(z).Float64()
			if acc == big.Exact {
				return f
			}
		case 12:
			return new(big.Float).SetPrec(512).SetInt(z)
		case 13:
			if z.IsInt64() {
				return int(z.Int64())
			}
		}
	}
}

// extFromGo describes a Go input value for the Lean model (see Model.Abi.Ext).
func extFromGo(v any) map[string]any {
	numAnn := func(m map[string]any, s string) map[string]any {
		m["fl"], m["rat"] = extFloat(s), extRat(s)
		// a text such as "3e9210299" denotes an integer of millions of digits: far outside every ABI integer type
		// (the code rejects it on range), and Lean's decimal parser is quadratic in the digit count - hand the model
		// "no integer" instead of the digits; the verdict (an error) is the same
		for _, k := range []string{"fl", "rat"} {
			if sv, isStr := m[k].(string); isStr && len(sv) > 2000 {
				m[k] = "fail"
			}
		}
		return m
	}
	switch t := v.(type) {
	case nil:
		return map[string]any{"t": "null"}
	case bool:
		return map[string]any{"t": "bool", "v": t}
	case json.Number:
		return numAnn(map[string]any{"t": "num", "v": t.String()}, t.String())
	case string:
		return numAnn(map[string]any{"t": "str", "v": t}, t)
	case []byte:
		return map[string]any{"t": "bytes", "v": hx(t)}
	case []any:
		out := []any{}
		for _, c := range t {
			out = append(out, extFromGo(c))
		}
		return map[string]any{"t": "arr", "v": out}
	case map[string]any:
		keys := make([]string, 0, len(t))
		for k := range t {
			keys = append(keys, k)
		}
		sort.Strings(keys)
		ks, vs := []any{}, []any{}
		for _, k := range keys {
			ks = append(ks, k)
			vs = append(vs, extFromGo(t[k]))
		}
		return map[string]any{"t": "obj", "k": ks, "v": vs}
	case *big.Int:
		return map[string]any{"t": "int", "v": t.String(), "gk": "bigint"}
	case int64:
		return map[string]any{"t": "int", "v": fmt.Sprint(t), "gk": "int64"}
	case int32:
		return map[string]any{"t": "int", "v": fmt.Sprint(t), "gk": "int32"}
	case int:
		return map[string]any{"t": "int", "v": fmt.Sprint(t), "gk": "int"}
	case uint64:
		return map[string]any{"t": "int", "v": fmt.Sprint(t), "gk": "uint64"}
	case uint8:
		return map[string]any{"t": "int", "v": fmt.Sprint(t), "gk": "uint8"}
	case int16:
		return map[string]any{"t": "int", "v": fmt.Sprint(t), "gk": "int16"}
	case int8:
		return map[string]any{"t": "int", "v": fmt.Sprint(t), "gk": "int8"}
	case uint:
		return map[string]any{"t": "int", "v": fmt.Sprint(t), "gk": "uint"}
	case uint32:
		return map[string]any{"t": "int", "v": fmt.Sprint(t), "gk": "uint32"}
	case uint16:
		return map[string]any{"t": "int", "v": fmt.Sprint(t), "gk": "uint16"}
	case float64:
		return floatExt(new(big.Float).SetMode(big.ToNearestEven), t, "float64")
	case float32:
		return floatExt(nil, float64(t), "float32")
	case *big.Float:
		i, acc := t.Int(nil)
		m := map[string]any{"t": "float", "gk": "bigfloat", "integral": i != nil && acc == big.Exact, "v": "0", "text": t.Text('g', 80), "prec": t.Prec()}
		if i != nil && acc == big.Exact {
			m["v"] = i.String()
		}
		return m
	}
	return map[string]any{"t": "null"}
}

func floatExt(_ *big.Float, f float64, gk string) map[string]any {
	m := map[string]any{"t": "float", "gk": gk, "bits": fmt.Sprintf("%016x", math.Float64bits(f)), "integral": false, "v": "0"}
	if !math.IsNaN(f) && !math.IsInf(f, 0) {
		i, acc := new(big.Float).SetFloat64(f).Int(nil)
		if acc == big.Exact {
			m["integral"] = true
			m["v"] = i.String()
		}
	}
	return m
}

// goFromExt rebuilds the Go input value from its description (used by Impl and by replay).
func goFromExt(m map[string]any) any {
	switch m["t"] {
	case "null":
		return nil
	case "bool":
		return m["v"].(bool)
	case "num":
		return json.Number(m["v"].(string))
	case "str":
		return m["v"].(string)
	case "bytes":
		return unhx(m["v"].(string))
	case "arr":
		out := []any{}
		for _, c := range m["v"].([]any) {
			out = append(out, goFromExt(c.(map[string]any)))
		}
		return out
	case "obj":
		out := map[string]any{}
		ks := m["k"].([]any)
		vs := m["v"].([]any)
		for i := range ks {
			out[ks[i].(string)] = goFromExt(vs[i].(map[string]any))
		}
		return out
	case "int":
		z, _ := new(big.Int).SetString(m["v"].(string), 10)
		switch m["gk"] {
		case "int64":
			return z.Int64()
		case "int32":
			return int32(z.Int64())
		case "int":
			return int(z.Int64())
		case "uint64":
			return z.Uint64()
		case "uint8":
			return uint8(z.Uint64())
		case "int16":
			return int16(z.Int64())
		case "int8":
			return int8(z.Int64())
		case "uint":
			return uint(z.Uint64())
		case "uint32":
			return uint32(z.Uint64())
		case "uint16":
			return uint16(z.Uint64())
		}
		return z
	case "float":
		switch m["gk"] {
		case "bigfloat":
			prec := uint(512)
			f, _, _ := big.ParseFloat(m["text"].(string), 10, prec, big.ToNearestEven)
			return f
		default:
			var bits uint64
			fmt.Sscanf(m["bits"].(string), "%x", &bits)
			f := math.Float64frombits(bits)
			if m["gk"] == "float32" {
				return float32(f)
			}
			return f
		}
	}
	return nil
}

func paramsJSON(ts []*absTy) []any {
	out := []any{}
	for _, t := range ts {
		out = append(out, t.param())
	}
	return out
}

func paramArray(ps any) abi.ParameterArray {
	b, _ := json.Marshal(ps)
	var pa abi.ParameterArray
	_ = json.Unmarshal(b, &pa)
	return pa
}

// cvToJSON renders an implementation ComponentValue tree in the canonical abstract form.
func cvToJSON(cv *abi.ComponentValue) any {
	if cv == nil {
		return nil
	}
	if cv.Component != nil && cv.Component.ComponentType() == abi.ElementaryComponent {
		switch t := cv.Value.(type) {
		case *big.Int:
			return map[string]any{"i": t.String()}
		case []byte:
			return map[string]any{"b": hx(t)}
		case string:
			return map[string]any{"s": hx([]byte(t))}
		case *big.Float:
			return map[string]any{"f": t.Text('g', 100)}
		}
		return map[string]any{"?": fmt.Sprintf("%T", cv.Value)}
	}
	out := []any{}
	for _, c := range cv.Children {
		out = append(out, cvToJSON(c))
	}
	return out
}

// jToJSON renders a serializer output tree (interface{}) in the canonical tagged form used by the model.
func jToJSON(v any) any {
	switch t := v.(type) {
	case bool:
		return map[string]any{"B": t}
	case json.Number:
		return map[string]any{"n": t.String()}
	case float64:
		return map[string]any{"n": big.NewFloat(t).Text('f', 0)}
	case string:
		return map[string]any{"s": hx([]byte(t))}
	case []interface{}:
		out := []any{}
		for _, c := range t {
			out = append(out, jToJSON(c))
		}
		return map[string]any{"a": out}
	case map[string]interface{}:
		o := map[string]any{}
		for k, c := range t {
			o[k] = jToJSON(c)
		}
		return map[string]any{"o": o}
	}
	return map[string]any{"?": fmt.Sprintf("%T", v)}
}
