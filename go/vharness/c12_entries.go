//go:build verif

package main

import (
	"encoding/json"
	"fmt"
	"strings"

	"github.com/hyperledger/firefly-signer/pkg/abi"
	"github.com/hyperledger/firefly-signer/pkg/ethtypes"
)

func entryJSON(typ, name string, anon bool, ts []*absTy) map[string]any {
	m := map[string]any{"type": typ, "name": name, "inputs": paramsJSON(ts)}
	if anon {
		m["anonymous"] = true
	}
	return m
}

func entryFromJSON(v any) *abi.Entry {
	b, _ := json.Marshal(v)
	var e abi.Entry
	_ = json.Unmarshal(b, &e)
	return &e
}

func genEntryParams(r *Rng, depth int) []*absTy {
	n := r.Intn(9)
	if r.Intn(3) > 0 {
		n = r.Intn(4)
	}
	var ts []*absTy
	for i := 0; i < n; i++ {
		t := genTy(r, depth, tyOpts{maxArr: 3})
		t.Name = fmt.Sprintf("a%d", i)
		ts = append(ts, t)
	}
	return ts
}

// alias spellings: uint / int / fixed-less; the signature must expand them
func aliasParams(ts []*absTy) []any {
	out := paramsJSON(ts)
	for i, t := range ts {
		if t.Kind == "uint" && t.M == 256 || t.Kind == "int" && t.M == 256 {
			out[i].(map[string]any)["type"] = t.Kind
		}
	}
	return out
}

func byValueIndexed(t *absTy) bool {
	return t.Kind == "uint" || t.Kind == "int" || t.Kind == "address" || t.Kind == "bool"
}

func init() {
	register(&Suite{
		Prop:     "C12",
		Parallel: true,
		Gen: func(c *Ctx) {
			r := c.R
			n := 300
			if c.Thorough() {
				n = 8000
			}
			var pool []map[string]any
			for i := 0; i < n; i++ {
				ts := genEntryParams(r, 1+r.Intn(3))
				typ := Pick(r, []string{"function", "function", "error", "event"})
				name := Pick(r, []string{"transfer", "f", "Approval", "Err", "x_1", "doIt", "Error"})
				e := entryJSON(typ, name, false, ts)
				if r.Intn(3) == 0 {
					e["inputs"] = aliasParams(ts)
				}
				pool = append(pool, e)
				c.Add(map[string]any{"op": "abi.entry", "entry": e}, "entry."+typ)
				if i%3 == 0 {
					// history: the entry object is used (signature, selector, topic), then changed, then used again —
					// what it reports must be the signature / selector / topic of the entry as it now stands
					var after map[string]any
					bb, _ := json.Marshal(e)
					d := json.NewDecoder(strings.NewReader(string(bb)))
					d.UseNumber()
					_ = d.Decode(&after)
					kind := Pick(r, []string{"rename", "replaceInputs", "retypeParam"})
					ins, _ := after["inputs"].([]any)
					switch {
					case kind == "replaceInputs":
						after["inputs"] = entryJSON(typ, name, false, genEntryParams(r, 1+r.Intn(3)))["inputs"]
					case kind == "retypeParam" && len(ins) > 0:
						k := r.Intn(len(ins))
						pm := ins[k].(map[string]any)
						pm["type"] = Pick(r, []string{"uint128", "int64", "bytes7", "address[]", "bool", "string[2]", "uint256"})
						delete(pm, "components")
						after["retyped"] = k
					default:
						kind = "rename"
						after["name"] = name + Pick(r, []string{"2", "_v2", "X"})
					}
					hist := map[string]any{"before": e, "kind": kind}
					if k, has := after["retyped"]; has {
						hist["index"] = k
						delete(after, "retyped")
					}
					c.Add(map[string]any{"op": "abi.entry", "entry": after, "history": hist}, "entry.history."+kind)
				}
				// call data: own decode, cross decode with another pool entry
				top := topTuple(ts)
				v := genVal(r, top, 60)
				other := pool[r.Intn(len(pool))]
				if r.Intn(4) == 0 {
					// same parameter types, different name: only the selector can tell them apart
					other = entryJSON(typ, name+"2", false, ts)
				}
				c.Add(map[string]any{"op": "abi.calldata", "entry": e, "other": other, "value": v, "input": extFromGo(renderVal(r, top, v, "json", false))}, "calldata")
			}
			// all ordered pairs of a small pool (cross-rejection)
			small := pool
			if len(small) > 14 {
				small = small[:14]
			}
			for i, a := range small {
				for k, b := range small {
					if i != k {
						ats := a["inputs"]
						_ = ats
						c.Add(map[string]any{"op": "abi.calldata", "entry": a, "other": b, "value": []any{}, "pairOnly": true}, "calldata.pairs")
					}
				}
			}
			// events: every assignment of indexed flags up to the topic limit
			ne := 120
			if c.Thorough() {
				ne = 3000
			}
			for i := 0; i < ne; i++ {
				var ts []*absTy
				np := r.Intn(6)
				for k := 0; k < np; k++ {
					t := genTy(r, 1+r.Intn(2), tyOpts{maxArr: 3})
					if t.Kind == "function" {
						t = &absTy{Kind: "uint", M: 64}
					}
					t.Name = fmt.Sprintf("e%d", k)
					ts = append(ts, t)
				}
				anon := r.Intn(4) == 0
				limit := 3
				if anon {
					limit = 4
				}
				for mask := 0; mask < 1<<len(ts); mask++ {
					cnt := 0
					for k := range ts {
						if mask>>k&1 == 1 {
							cnt++
						}
					}
					if cnt > limit || (len(ts) > 3 && r.Intn(3) > 0) {
						continue
					}
					var tcopy []*absTy
					var raws []any
					for k, t := range ts {
						tt := *t
						tt.Index = mask>>k&1 == 1
						tcopy = append(tcopy, &tt)
						if tt.Index && !byValueIndexed(&tt) {
							raws = append(raws, hx(r.Bytes(32)))
						}
					}
					e := entryJSON("event", Pick(r, []string{"Transfer", "Ev", "Changed"}), anon, tcopy)
					v := genVal(r, topTuple(tcopy), 40)
					variant := Pick(r, []string{"", "", "", "foreignTopic0", "dropLastTopic", "noTopics"})
					c.Add(map[string]any{"op": "abi.event", "entry": e, "values": v, "rawTopics": raws, "variant": variant}, "event."+variant)
				}
			}
			// revert data shorter than a selector, or nothing at all, carries no selector: it is attributed to nothing — also
			// when the ABI has errors without arguments (whose whole encoding is their selector)
			for i := 0; i < 40; i++ {
				ab := []any{entryJSON("error", Pick(r, []string{"Unauthorized", "Paused", "E"}), false, nil)}
				if r.Bool() {
					ab = append(ab, entryJSON("error", "WithArgs", false, genEntryParams(r, 1)))
				}
				if r.Bool() {
					ab = append([]any{entryJSON("function", "f", false, nil)}, ab...)
				}
				e0 := entryFromJSON(ab[len(ab)-1].(map[string]any))
				sel := e0.FunctionSelectorBytes()
				for _, d := range [][]byte{nil, {}, sel[:1], sel[:2], sel[:3], r.Bytes(3), sel, append(append([]byte{}, sel...), 0)} {
					c.Add(map[string]any{"op": "abi.rawentry", "kind": "error", "abi": ab, "data": hx(d), "nilData": d == nil}, "error.short")
				}
			}
			// revert data attribution
			nr := 150
			if c.Thorough() {
				nr = 3000
			}
			for i := 0; i < nr; i++ {
				var ab []any
				k := 1 + r.Intn(5)
				for q := 0; q < k; q++ {
					ts := genEntryParams(r, 1+r.Intn(2))
					typ := Pick(r, []string{"error", "error", "error", "function", "event"})
					ab = append(ab, entryJSON(typ, Pick(r, []string{"Err", "Bad", "Error", "InsufficientBalance"}), false, ts))
				}
				// pick an error entry (or the default, index 0)
				which := 0
				for try := 0; try < 6; try++ {
					q := r.Intn(k + 1)
					if q == 0 || ab[q-1].(map[string]any)["type"] == "error" {
						which = q
						break
					}
				}
				var v any
				if which == 0 {
					v = []any{map[string]any{"s": hx([]byte(utf8String(r, r.Intn(50))))}}
				} else {
					ps := paramArray(ab[which-1].(map[string]any)["inputs"])
					_ = ps
					// regenerate the abstract types for value generation from the JSON is not possible: keep them alongside
				}
				if which != 0 {
					// rebuild with known abstract types
					ts := genEntryParams(r, 1+r.Intn(2))
					ab[which-1] = entryJSON("error", Pick(r, []string{"Err", "Bad", "Custom"}), false, ts)
					v = genVal(r, topTuple(ts), 40)
				}
				c.Add(map[string]any{"op": "abi.error", "abi": ab, "which": which, "value": v}, "error")
			}
		},
		ImplO: func(req map[string]any, orc map[string]any) any {
			switch str(req, "op") {
			case "abi.rawentry":
				return rawEntryImpl(req)
			case "abi.entry":
				e := entryFromJSON(req["entry"])
				if h, has := req["history"].(map[string]any); has {
					after := e
					e = entryFromJSON(h["before"])
					_ = e.Validate()
					_, _ = e.Signature()
					_, _ = e.GenerateFunctionSelector()
					_, _ = e.SignatureHash()
					_ = e.FunctionSelectorBytes()
					switch str(h, "kind") {
					case "rename":
						e.Name = after.Name
					case "replaceInputs":
						e.Inputs = after.Inputs
					case "retypeParam":
						k := 0
						switch t := h["index"].(type) {
						case int:
							k = t
						case json.Number:
							n, _ := t.Int64()
							k = int(n)
						case float64:
							k = int(t)
						}
						e.Inputs[k].Type = after.Inputs[k].Type
						e.Inputs[k].Components = after.Inputs[k].Components
						_ = e.Inputs[k].Validate()
					}
				}
				sig, err := e.Signature()
				if err != nil {
					return "err"
				}
				sel, _ := e.GenerateFunctionSelector()
				h, _ := e.SignatureHash()
				return ok(map[string]any{"sig": sig, "selector": hx(sel), "hash": hx(h), "selBytes": hx(e.FunctionSelectorBytes()), "hashBytes": hx(e.SignatureHashBytes())})
			case "abi.calldata":
				e := entryFromJSON(req["entry"])
				other := entryFromJSON(req["other"])
				data := unhx(str(orc, "specData"))
				out := map[string]any{}
				if req["pairOnly"] != true {
					top := &absTy{}
					_ = top
					// encode through the implementation from a flat-array rendering of the value
					cvIn, perr := e.Inputs.ParseExternalData(goFromExt(req["input"].(map[string]any)))
					if perr != nil {
						out["enc"] = "err"
					} else if b, eerr := e.EncodeCallData(cvIn); eerr != nil {
						out["enc"] = "err"
					} else {
						out["enc"] = ok(hx(b))
					}
				}
				if cv, err := e.DecodeCallData(data); err != nil {
					out["dec"] = "err"
				} else {
					out["dec"] = ok(cvToJSON(cv))
				}
				if cv, err := other.DecodeCallData(data); err != nil {
					out["cross"] = "err"
				} else {
					out["cross"] = ok(cvToJSON(cv))
				}
				return out
			case "abi.event":
				e := entryFromJSON(req["entry"])
				var topics []ethtypes.HexBytes0xPrefix
				for _, t := range orc["topics"].([]any) {
					topics = append(topics, unhx(t.(string)))
				}
				cv, err := e.DecodeEventData(topics, unhx(str(orc, "data")))
				if err != nil {
					return "err"
				}
				return ok(cvToJSON(cv))
			case "abi.error":
				var a abi.ABI
				b, _ := json.Marshal(req["abi"])
				_ = json.Unmarshal(b, &a)
				e, cv, found := a.ParseError(unhx(str(orc, "data")))
				if !found {
					return nil
				}
				idx := -1
				if e.Name == "Error" && len(e.Inputs) == 1 && e.Inputs[0].Name == "reason" {
					idx = 0
				}
				for i, x := range a {
					if x == e {
						idx = i + 1
					}
				}
				s, sok := a.ErrorString(unhx(str(orc, "data")))
				return map[string]any{"index": idx, "cv": cvToJSON(cv), "str": s != "", "strOK": sok, "strText": trunc(s, 200), "name": e.Name}
			}
			return "bad-op"
		},
		Judge: func(c *Ctx, req map[string]any, impl any, orc map[string]any) []Finding {
			var fs []Finding
			if impl == "panic" {
				return []Finding{{Kind: "violation", Region: str(req, "op") + ".panic", Detail: "panicked"}}
			}
			if str(req, "op") == "abi.rawentry" {
				fs = append(fs, rawEntryJudge(req, impl, orc)...)
				// less than four bytes carry no selector: attributed to nothing
				if m, isMap := impl.(map[string]any); isMap && len(str(req, "data")) < 8 && m["dec"] != nil {
					fs = append(fs, Finding{Kind: "violation", Region: "abi.error.short-data", Detail: "revert data of " + fmt.Sprint(len(str(req, "data"))/2) + " bytes (no selector) was attributed to an error definition: " + trunc(canon(m["dec"]), 200)})
				}
				return fs
			}
			if orc["badtype"] == true {
				return []Finding{{Kind: "mismatch", Region: "harness.expectation", Detail: "generated entry does not parse in the model"}}
			}
			switch str(req, "op") {
			case "abi.entry":
				m, isok := impl.(map[string]any)
				if !isok {
					return []Finding{{Kind: "violation", Region: "abi.entry.rejects-valid", Detail: "valid entry has no signature"}}
				}
				o := m["ok"].(map[string]any)
				if !same(ok(o["sig"]), orc["sig"]) || !same(ok(o["selector"]), orc["selector"]) || !same(ok(o["hash"]), orc["hash"]) {
					fs = append(fs, Finding{Kind: "mismatch", Region: "abi.entry", Detail: "signature / selector / hash differ from model"})
				}
				if o["sig"] != orc["specSig"] {
					fs = append(fs, Finding{Kind: "violation", Region: "abi.entry.signature", Detail: "signature is not the canonical name(type,...) form"})
				}
				if o["selector"] != orc["specSelector"] || o["selBytes"] != orc["specSelector"] {
					fs = append(fs, Finding{Kind: "violation", Region: "abi.entry.selector", Detail: "selector is not keccak256(signature)[0:4]"})
				}
				if o["hash"] != orc["specHash"] || o["hashBytes"] != orc["specHash"] {
					fs = append(fs, Finding{Kind: "violation", Region: "abi.entry.topic0", Detail: "signature hash is not keccak256(signature)"})
				}
			case "abi.calldata":
				m := impl.(map[string]any)
				if req["pairOnly"] != true {
					if orc["wellTyped"] != true {
						return []Finding{{Kind: "mismatch", Region: "harness.expectation", Detail: "ill-typed value"}}
					}
					if !same(m["enc"], orc["modelEnc"]) {
						fs = append(fs, Finding{Kind: "mismatch", Region: "abi.calldata.enc", Detail: "EncodeCallData differs from model"})
					}
					if !same(m["enc"], ok(orc["specData"])) {
						fs = append(fs, Finding{Kind: "violation", Region: "abi.calldata.enc", Detail: "call data is not selector ‖ enc(args)"})
					}
					if !same(m["dec"], ok(orc["value"])) {
						fs = append(fs, Finding{Kind: "violation", Region: "abi.calldata.dec", Detail: "decoding own call data did not return the arguments"})
					}
				}
				if !same(m["dec"], orc["modelDec"]) || !same(m["cross"], orc["modelCross"]) {
					fs = append(fs, Finding{Kind: "mismatch", Region: "abi.calldata.dec", Detail: "DecodeCallData differs from model"})
				}
				if orc["sameSelector"] != true && m["cross"] != "err" {
					fs = append(fs, Finding{Kind: "violation", Region: "abi.calldata.cross", Detail: "call data decoded by an entry with a different selector"})
				}
			case "abi.event":
				if !same(impl, orc["model"]) {
					fs = append(fs, Finding{Kind: "mismatch", Region: "abi.event", Detail: "DecodeEventData differs from model"})
				}
				if orc["expectErr"] == true {
					if impl != "err" {
						fs = append(fs, Finding{Kind: "violation", Region: "abi.event.accepts-" + str(req, "variant"), Detail: "log with foreign signature topic / too few topics was decoded"})
					}
				} else if !same(impl, ok(orc["expected"])) {
					fs = append(fs, Finding{Kind: "violation", Region: "abi.event.decode", Detail: "decoded event differs from (indexed by value from topics, other indexed as raw topic, rest from data)"})
				}
			case "abi.error":
				if !same(implErr(impl), orc["model"]) {
					fs = append(fs, Finding{Kind: "mismatch", Region: "abi.error", Detail: "ParseError differs from model"})
				}
				m, found := impl.(map[string]any)
				if !found {
					fs = append(fs, Finding{Kind: "violation", Region: "abi.error.unattributed", Detail: "revert data carrying a known error selector was not attributed"})
				} else {
					if !same(m["index"], orc["expectIndex"]) {
						fs = append(fs, Finding{Kind: "violation", Region: "abi.error.wrong-entry", Detail: "revert data attributed to the wrong error definition"})
					}
					if orc["expectSameEntry"] == true && !same(m["cv"], orc["value"]) {
						fs = append(fs, Finding{Kind: "violation", Region: "abi.error.args", Detail: "decoded error arguments differ"})
					}
					// the string form goes through the same attribution: it must exist and name the error
					if m["strOK"] != true || !strings.HasPrefix(fmt.Sprint(m["strText"]), fmt.Sprint(m["name"])+"(") {
						fs = append(fs, Finding{Kind: "violation", Region: "abi.error.string", Detail: fmt.Sprintf("ErrorString of attributed revert data is %q, ok=%v (expected %s(…), true)", m["strText"], m["strOK"], m["name"])})
					}
				}
			}
			return fs
		},
	})
}

func implErr(impl any) any {
	m, isMap := impl.(map[string]any)
	if !isMap {
		return nil
	}
	return map[string]any{"index": m["index"], "cv": m["cv"]}
}

// flatInput turns an abstract value into plain external input (arrays, decimal strings, 0x-hex)
func flatInput(v any) any {
	switch t := v.(type) {
	case []any:
		out := []any{}
		for _, c := range t {
			out = append(out, flatInput(c))
		}
		return out
	case map[string]any:
		if s, has := t["i"].(string); has {
			return s
		}
		if s, has := t["b"].(string); has {
			return "0x" + s
		}
		if s, has := t["s"].(string); has {
			return string(unhx(s))
		}
	}
	return nil
}
