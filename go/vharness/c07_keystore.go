//go:build verif

package main

import (
	"crypto/aes"
	"crypto/cipher"
	"crypto/sha256"
	"encoding/json"
	"fmt"
	"math/big"
	"strconv"
	"strings"

	"github.com/hyperledger/firefly-signer/pkg/keystorev3"
	"github.com/hyperledger/firefly-signer/pkg/secp256k1"
	"golang.org/x/crypto/pbkdf2"
	"golang.org/x/crypto/scrypt"
)

func describeKsFile(doc []byte) map[string]any {
	m := keystorev3.VerifParse(doc)
	out := map[string]any{}
	for k, v := range m {
		switch t := v.(type) {
		case []byte:
			out[k] = hx(t)
		case int:
			out[k] = fmt.Sprint(t)
		default:
			out[k] = v
		}
	}
	return out
}

// ksExpensive reports whether the decoded file asks for a key derivation that is well-formed but too costly to run
// thousands of times in both the implementation and the Lean reference (e.g. a junk value 2147483648 landing in
// `c` or `n`): such files are not malformed — they are outside what C15 is about — and are not generated.
func ksExpensive(f map[string]any) bool {
	num := func(k string) int64 {
		s, _ := f[k].(string)
		v, err := strconv.ParseInt(s, 10, 64)
		if err != nil || v < 0 {
			return 0
		}
		return v
	}
	sat := func(a, b int64) int64 {
		if a != 0 && b > (1<<40)/a {
			return 1 << 40
		}
		return a * b
	}
	switch f["kdf"] {
	case "scrypt":
		return sat(sat(num("n"), num("r")), num("p")) > 1<<17
	case "pbkdf2":
		return num("c") > 10000
	}
	return false
}

func ksReadReq(doc []byte, pw []byte, extra map[string]any) map[string]any {
	req := map[string]any{"op": "ks.read", "doc": string(doc), "password": hx(pw), "file": describeKsFile(doc)}
	for k, v := range extra {
		req[k] = v
	}
	return req
}

// an externally produced standard V3 file (built here with the Go KDF / AES libraries directly, not with keystorev3)
func externalV3(r *Rng, kdf string, pw, key []byte, n, rr, p, c int) []byte {
	salt := r.Bytes(Pick(r, []int{32, 32, 16, 8}))
	iv := r.Bytes(16)
	switch r.Intn(6) {
	case 0: // the counter carries out of its low 64 bits at the second block
		for k := 8; k < 16; k++ {
			iv[k] = 0xff
		}
	case 1: // ... out of the low 32 bits, or all the way round
		for k := Pick(r, []int{12, 0}); k < 16; k++ {
			iv[k] = 0xff
		}
	}
	var dk []byte
	var kdfparams map[string]any
	if kdf == "scrypt" {
		dk, _ = scrypt.Key(pw, salt, n, rr, p, 32)
		kdfparams = map[string]any{"dklen": 32, "n": n, "r": rr, "p": p, "salt": hx(salt)}
	} else {
		dk = pbkdf2.Key(pw, salt, c, 32, sha256.New)
		kdfparams = map[string]any{"dklen": 32, "c": c, "prf": "hmac-sha256", "salt": hx(salt)}
	}
	block, _ := aes.NewCipher(dk[:16])
	ct := make([]byte, len(key))
	cipher.NewCTR(block, iv).XORKeyStream(ct, key)
	mac := keccak(append(append([]byte{}, dk[16:32]...), ct...))
	doc := map[string]any{"version": 3, "id": "3198bc9c-6672-5ab3-d995-4942343ae5b6", "address": "008aeeda4d805471df9b2a5b0f38a0c3bcba786b",
		"crypto": map[string]any{"cipher": "aes-128-ctr", "ciphertext": hx(ct), "cipherparams": map[string]any{"iv": hx(iv)}, "kdf": kdf, "kdfparams": kdfparams, "mac": hx(mac)}}
	b, _ := json.Marshal(doc)
	return b
}

// recompute the MAC of a (possibly mutated) document for the given password so that it stays valid
func remac(doc map[string]any, pw []byte) {
	defer func() { _ = recover() }()
	cr, _ := doc["crypto"].(map[string]any)
	if cr == nil {
		return
	}
	kp, _ := cr["kdfparams"].(map[string]any)
	if kp == nil {
		return
	}
	num := func(v any) int {
		switch t := v.(type) {
		case float64:
			return int(t)
		case int:
			return t
		case json.Number:
			i, _ := t.Int64()
			return int(i)
		}
		return 0
	}
	salt := unhx(strings.TrimPrefix(fmt.Sprint(kp["salt"]), "0x"))
	ct := unhx(strings.TrimPrefix(fmt.Sprint(cr["ciphertext"]), "0x"))
	var dk []byte
	switch cr["kdf"] {
	case "scrypt":
		n, rr, p := num(kp["n"]), num(kp["r"]), num(kp["p"])
		if n > 1<<14 || rr > 16 || p > 4 || rr <= 0 || p <= 0 {
			return
		}
		d, err := scrypt.Key(pw, salt, n, rr, p, 32)
		if err != nil {
			return
		}
		dk = d
	case "pbkdf2":
		c := num(kp["c"])
		if c > 5000 {
			return
		}
		dk = pbkdf2.Key(pw, salt, c, 32, sha256.New)
	default:
		return
	}
	cr["mac"] = hx(keccak(append(append([]byte{}, dk[16:32]...), ct...)))
}

var ksPasswords = []string{"", "correcthorsebatterystaple", "pässwörd ✓ 密码", "  leading and trailing  ", "p\tw\n", strings.Repeat("long-", 205)}

func init() {
	// ---------------------------------------------------------------- C07
	register(&Suite{
		Prop:     "C07",
		Parallel: true,
		Gen: func(c *Ctx) {
			r := c.R
			// primitives: Lean reference vs Go libraries
			for i := 0; i < 25; i++ {
				d := r.Bytes(Pick(r, []int{0, 1, 55, 56, 63, 64, 65, 119, 120, 200}))
				k := r.Bytes(Pick(r, []int{0, 1, 32, 64, 65, 100}))
				c.Add(map[string]any{"op": "prim", "fn": "sha256", "data": hx(d)}, "prim.sha256")
				c.Add(map[string]any{"op": "prim", "fn": "hmac", "key": hx(k), "data": hx(d)}, "prim.hmac")
				c.Add(map[string]any{"op": "prim", "fn": "pbkdf2", "key": hx(k), "data": hx(d), "c": 1 + r.Intn(5), "len": Pick(r, []int{0, 1, 16, 32, 33, 64, 100})}, "prim.pbkdf2")
				c.Add(map[string]any{"op": "prim", "fn": "aesctr", "key": hx(r.Bytes(16)), "iv": hx(append(r.Bytes(8), 0xff, 0xff, 0xff, 0xff, 0xff, 0xff, 0xff, byte(0xf0+r.Intn(16)))), "data": hx(r.Bytes(Pick(r, []int{0, 1, 15, 16, 17, 32, 100, 300})))}, "prim.aesctr")
				if i < 8 {
					c.Add(map[string]any{"op": "prim", "fn": "scrypt", "key": hx(k), "data": hx(d), "n": 1 << (1 + r.Intn(5)), "r": Pick(r, []int{1, 2, 8}), "p": 1 + r.Intn(2), "len": Pick(r, []int{16, 32, 64})}, "prim.scrypt")
				}
			}
			// created files: both presets (thorough) and custom secrets
			nCreate := 3
			if c.Thorough() {
				nCreate = 20
			}
			for i := 0; i < nCreate; i++ {
				pw := ksPasswords[i%len(ksPasswords)]
				key := genKey(r)
				kp := secp256k1.KeyPairFromBytes(key)
				var wf keystorev3.WalletFile
				preset := "standard"
				n := 1024
				switch {
				case i%4 == 0:
					wf = keystorev3.NewWalletFileStandard(pw, kp)
				case i%4 == 1 && c.Thorough():
					wf = keystorev3.NewWalletFileLight(pw, kp)
					preset, n = "light", 4096
				case i%4 == 2:
					key = r.Bytes(1 + r.Intn(128))
					wf = keystorev3.NewWalletFileCustomBytesStandard(pw, key)
					preset = "custom"
				default:
					key = r.Bytes(1 + r.Intn(128))
					wf = keystorev3.NewWalletFileCustomBytesLight(pw, key)
					preset = "customlight"
				}
				wf.Metadata()["extra1"] = "value1"
				wf.Metadata()["nested"] = map[string]any{"a": []any{1, "b"}}
				wf.Metadata()["id"] = "not-overridable"
				wf.Metadata()["dropped"] = nil
				// values that are the zero value of their kind are values all the same
				wf.Metadata()["zeroInt"] = 0
				wf.Metadata()["flagFalse"] = false
				wf.Metadata()["emptyStr"] = ""
				wf.Metadata()["emptyList"] = []any{}
				doc := wf.JSON()
				f := describeKsFile(doc)
				c.Add(map[string]any{"op": "ks.create", "doc": string(doc), "password": hx([]byte(pw)), "key": hx(key), "salt": f["salt"], "iv": f["iv"], "n": n, "p": 1,
					"fileCt": f["ciphertext"], "fileMac": f["mac"], "preset": preset, "fileN": f["n"], "fileR": f["r"], "fileP": f["p"], "fileDklen": f["dklen"], "cipher": f["cipher"], "kdf": f["kdf"], "version": f["version"], "id": wf.GetID().String()}, "create."+preset)
				c.Add(ksReadReq(doc, []byte(pw), map[string]any{"expectKey": hx(key), "checkMeta": true}), "read.created")
				c.Add(ksReadReq(doc, []byte(pw+"x"), map[string]any{"expectReject": true}), "read.wrongpw")
				if pw != "" {
					c.Add(ksReadReq(doc, []byte(pw[:len(pw)-1]), map[string]any{"expectReject": true}), "read.wrongpw")
					c.Add(ksReadReq(doc, []byte(strings.TrimSpace(pw)+" "), map[string]any{"expectReject": pw != strings.TrimSpace(pw)+" "}), "read.wrongpw")
				}
			}
			// fresh salt / IV: pairwise distinct over created files (cheap custom secrets, N=1024)
			nf := 6
			if c.Thorough() {
				nf = 40
			}
			seen := map[string]bool{}
			dup := false
			for i := 0; i < nf; i++ {
				f := describeKsFile(keystorev3.NewWalletFileCustomBytesStandard("pw", []byte{1, 2, 3}).JSON())
				for _, k := range []string{"salt", "iv"} {
					v := fmt.Sprint(f[k])
					if seen[k+v] {
						dup = true
					}
					seen[k+v] = true
				}
			}
			c.Notes["fresh_salt_iv_distinct_over"] = nf
			c.Notes["fresh_salt_iv_duplicate_seen"] = dup
			if dup {
				c.Add(map[string]any{"op": "prim", "fn": "freshness-violated", "data": ""}, "freshness")
			}
			// externally produced standard files
			ext := 10
			if c.Thorough() {
				ext = 150
			}
			for i := 0; i < ext; i++ {
				pw := []byte(ksPasswords[r.Intn(len(ksPasswords))])
				key := r.Bytes(32)
				var doc []byte
				if i%2 == 0 {
					n := 1 << (1 + r.Intn(8))
					if c.Thorough() && i%30 == 0 {
						n = 1 << 14
					}
					doc = externalV3(r, "scrypt", pw, key, n, Pick(r, []int{1, 8}), 1+r.Intn(2), 0)
				} else {
					doc = externalV3(r, "pbkdf2", pw, key, 0, 0, 0, 1+r.Intn(Pick(r, []int{3, 100, 4096})))
				}
				c.Add(ksReadReq(doc, pw, map[string]any{"expectKey": hx(key)}), "read.external")
				// tampering: single-byte mutations of ciphertext / MAC / salt, and parameter changes
				var tree map[string]any
				_ = json.Unmarshal(doc, &tree)
				for k := 0; k < 6; k++ {
					var t map[string]any
					_ = json.Unmarshal(doc, &t)
					cr := t["crypto"].(map[string]any)
					kp := cr["kdfparams"].(map[string]any)
					tag := ""
					flipHex := func(m map[string]any, key string) {
						b := unhx(m[key].(string))
						if len(b) > 0 {
							b[r.Intn(len(b))] ^= byte(1 << r.Intn(8))
						}
						m[key] = hx(b)
					}
					switch r.Intn(8) {
					case 0:
						flipHex(cr, "ciphertext")
						tag = "ciphertext"
					case 1:
						flipHex(cr, "mac")
						tag = "mac"
						if r.Intn(3) == 0 {
							// a MAC that is a proper prefix of the right one, empty, or the right one with bytes appended
							var orig map[string]any
							_ = json.Unmarshal(doc, &orig)
							good := unhx(orig["crypto"].(map[string]any)["mac"].(string))
							cr["mac"] = hx(Pick(r, [][]byte{good[:16], good[:1], good[:31], {}, append(append([]byte{}, good...), 0), append(append([]byte{}, good...), good...)}))
							tag = "mac.length"
						}
					case 2:
						flipHex(kp, "salt")
						tag = "salt"
					case 3:
						if _, has := kp["n"]; has {
							kp["n"] = int(kp["n"].(float64)) * 2
						} else {
							kp["c"] = int(kp["c"].(float64)) + 1
						}
						tag = "n/c"
					case 4:
						if _, has := kp["r"]; has {
							kp["r"] = int(kp["r"].(float64)) + 1
						} else {
							kp["c"] = int(kp["c"].(float64)) + 7
						}
						tag = "r/c"
					case 5:
						if _, has := kp["p"]; has {
							kp["p"] = int(kp["p"].(float64)) + 1
						} else {
							kp["prf"] = "hmac-sha512"
						}
						tag = "p/prf"
					case 6:
						kp["dklen"] = Pick(r, []int{16, 31, 33, 64})
						tag = "dklen"
					default:
						flipHex(cr["cipherparams"].(map[string]any), "iv")
						tag = "iv(not authenticated)"
					}
					b, _ := json.Marshal(t)
					extra := map[string]any{"expectReject": tag != "iv(not authenticated)"}
					c.Add(ksReadReq(b, pw, extra), "tamper."+tag)
				}
			}
		},
		Impl:  ksImpl,
		Judge: ksJudge,
	})

	// ---------------------------------------------------------------- C15
	register(&Suite{
		Prop:     "C15",
		Parallel: true,
		Gen: func(c *Ctx) {
			r := c.R
			n := 40
			if c.Thorough() {
				n = 800
			}
			skippedExpensive := 0
			junk := []any{nil, true, "x", "", json.Number("0"), json.Number("-1"), json.Number("1.5"), json.Number("1e2"), json.Number("99999999999999999999"), []any{}, map[string]any{}, "0x", "zz", json.Number("3"), json.Number("2147483648")}
			for i := 0; i < n; i++ {
				pw := []byte(ksPasswords[r.Intn(len(ksPasswords))])
				key := r.Bytes(32)
				var doc []byte
				if r.Bool() {
					doc = externalV3(r, "scrypt", pw, key, 1<<(1+r.Intn(4)), Pick(r, []int{1, 8}), 1, 0)
				} else {
					doc = externalV3(r, "pbkdf2", pw, key, 0, 0, 0, 1+r.Intn(4))
				}
				c.Add(ksReadReq(doc, pw, map[string]any{"expectKey": hx(key)}), "valid")
				for k := 0; k < 25; k++ {
					var t map[string]any
					d := json.NewDecoder(strings.NewReader(string(doc)))
					d.UseNumber()
					_ = d.Decode(&t)
					cr := t["crypto"].(map[string]any)
					kp := cr["kdfparams"].(map[string]any)
					cp := cr["cipherparams"].(map[string]any)
					tag := ""
					switch r.Intn(14) {
					case 0:
						kp["dklen"] = Pick(r, []any{json.Number("-1"), json.Number("0"), json.Number("16"), json.Number("31"), json.Number("33"), json.Number("64")})
						tag = "dklen"
					case 1:
						cp["iv"] = hx(r.Bytes(Pick(r, []int{0, 1, 8, 15, 17, 24, 32})))
						tag = "iv-len"
					case 2:
						for _, f := range []string{"r", "p", "c", "n"} {
							if _, has := kp[f]; has && r.Bool() {
								kp[f] = Pick(r, []any{json.Number("0"), json.Number("-1"), json.Number("3"), json.Number("1"), json.Number("-8")})
							}
						}
						tag = "cost-params"
					case 3:
						cr["cipher"] = Pick(r, []string{"aes-256-cbc", "", "AES-128-CTR", "aes-128-cbc"})
						tag = "cipher"
					case 4:
						cr["kdf"] = Pick(r, []string{"argon2", "", "SCRYPT", "pbkdf2", "scrypt"})
						tag = "kdf"
					case 5:
						kp["prf"] = Pick(r, []string{"hmac-sha512", "", "HMAC-SHA256"})
						tag = "prf"
					case 6:
						kp["salt"] = Pick(r, []any{"", "0x", hx(r.Bytes(3)), nil})
						tag = "salt"
					case 7:
						cr["ciphertext"] = Pick(r, []any{"", hx(r.Bytes(1)), hx(r.Bytes(100)), nil})
						tag = "ciphertext"
					case 8:
						t["version"] = Pick(r, []any{json.Number("2"), json.Number("4"), "3", nil, json.Number("3.0")})
						tag = "version"
					case 9:
						t["id"] = Pick(r, []any{nil, "not-a-uuid", json.Number("5"), ""})
						tag = "id"
					case 10: // any field missing
						m := Pick(r, []map[string]any{t, cr, kp, cp})
						for key := range m {
							if r.Intn(3) == 0 {
								delete(m, key)
								break
							}
						}
						tag = "missing"
					case 11: // any field replaced by junk
						m := Pick(r, []map[string]any{t, cr, kp, cp})
						for key := range m {
							if r.Intn(3) == 0 {
								m[key] = Pick(r, junk)
								break
							}
						}
						tag = "junk"
					case 12:
						if _, has := kp["n"]; has {
							kp["n"] = Pick(r, []any{json.Number("3"), json.Number("6"), json.Number("1000"), json.Number("1"), json.Number("0")})
						}
						tag = "n-notpow2"
					default:
						kp["dklen"] = json.Number("32")
						tag = "none"
					}
					if r.Intn(3) > 0 {
						remac(t, pw) // keep the MAC valid so the code behind the MAC check is reached
						tag += "+validmac"
						if r.Intn(12) == 0 {
							// ... or only a prefix of it / nothing / more than it: not a valid MAC
							if good := unhx(fmt.Sprint(cr["mac"])); len(good) == 32 {
								cr["mac"] = hx(Pick(r, [][]byte{good[:16], good[:1], {}, append(append([]byte{}, good...), 7)}))
								tag = "mut.mac-length"
							}
						}
					}
					b, _ := json.Marshal(t)
					mreq := ksReadReq(b, pw, nil)
					if ksExpensive(mreq["file"].(map[string]any)) {
						skippedExpensive++
						continue
					}
					c.Add(mreq, "mut."+tag)
				}
			}
			for _, s := range []string{"", "null", "[]", "{}", "5", `"x"`, `{"version":3}`, `{"id":"3198bc9c-6672-5ab3-d995-4942343ae5b6","version":3}`,
				`{"id":"3198bc9c-6672-5ab3-d995-4942343ae5b6","version":3,"crypto":{"kdf":"scrypt"}}`, `{"id":"3198bc9c-6672-5ab3-d995-4942343ae5b6","version":3,"crypto":{"kdf":"pbkdf2"}}`,
				`{"id":"3198bc9c-6672-5ab3-d995-4942343ae5b6","version":3,"crypto":{"kdf":"scrypt","kdfparams":null}}`, `{"id":"3198bc9c-6672-5ab3-d995-4942343ae5b6","version":3,"crypto":null}`, "\x00\xff", `{"ID":"3198bc9c-6672-5ab3-d995-4942343ae5b6","VERSION":3,"CRYPTO":{"KDF":"scrypt"}}`} {
				c.Add(ksReadReq([]byte(s), []byte("pw"), nil), "corner")
			}
			for i := 0; i < 50; i++ {
				c.Add(ksReadReq(r.Bytes(r.Intn(200)), []byte("pw"), nil), "randombytes")
			}
			c.Notes["skipped_expensive_kdf_parameters"] = skippedExpensive
		},
		Impl:  ksImpl,
		Judge: ksJudge,
	})
}

func ksImpl(req map[string]any) any {
	switch str(req, "op") {
	case "prim":
		d, k := unhx(str(req, "data")), unhx(str(req, "key"))
		num := func(key string) int {
			switch t := req[key].(type) {
			case int:
				return t
			case json.Number:
				i, _ := t.Int64()
				return int(i)
			case float64:
				return int(t)
			}
			return 0
		}
		switch str(req, "fn") {
		case "sha256":
			h := sha256.Sum256(d)
			return hx(h[:])
		case "hmac":
			return hx(pbkdf2HmacOnce(k, d))
		case "pbkdf2":
			return hx(pbkdf2.Key(k, d, num("c"), num("len"), sha256.New))
		case "scrypt":
			b, _ := scrypt.Key(k, d, num("n"), num("r"), num("p"), num("len"))
			return hx(b)
		case "aesctr":
			block, _ := aes.NewCipher(k)
			out := make([]byte, len(d))
			cipher.NewCTR(block, unhx(str(req, "iv"))).XORKeyStream(out, d)
			return hx(out)
		}
		return "bad-fn"
	case "ks.create":
		return "n/a"
	case "ks.read":
		wf, err := keystorev3.ReadWalletFile([]byte(str(req, "doc")), unhx(str(req, "password")))
		if err != nil {
			return "err"
		}
		out := map[string]any{"key": hx(wf.PrivateKey())}
		if req["checkMeta"] == true {
			md := wf.Metadata()
			zi, hasZI := md["zeroInt"]
			ff, hasFF := md["flagFalse"]
			es, hasES := md["emptyStr"]
			_, hasEL := md["emptyList"]
			zeroOK := hasZI && fmt.Sprint(zi) == "0" && hasFF && ff == false && hasES && es == "" && hasEL
			out["metaOK"] = md["extra1"] == "value1" && md["nested"] != nil && md["dropped"] == nil && md["id"] != "not-overridable" && wf.GetID() != nil && wf.GetVersion() == 3 && zeroOK
		}
		return ok(out)
	}
	return "bad-op"
}

func pbkdf2HmacOnce(key, data []byte) []byte {
	// HMAC-SHA256 via the standard library
	return hmacSHA256(key, data)
}

func ksJudge(c *Ctx, req map[string]any, impl any, orc map[string]any) []Finding {
	var fs []Finding
	if impl == "panic" {
		return []Finding{{Kind: "violation", Region: str(req, "op") + ".panic", Detail: "panicked"}}
	}
	switch str(req, "op") {
	case "prim":
		if str(req, "fn") == "freshness-violated" {
			return []Finding{{Kind: "violation", Region: "ks.freshness", Detail: "two created files share a salt or IV"}}
		}
		if impl != orc["model"] {
			fs = append(fs, Finding{Kind: "mismatch", Region: "prim." + str(req, "fn"), Detail: "Lean reference primitive differs from the Go library"})
		}
	case "ks.create":
		if req["fileCt"] != orc["ciphertext"] || req["fileMac"] != orc["mac"] {
			fs = append(fs, Finding{Kind: "mismatch", Region: "ks.create", Detail: "created file's ciphertext / MAC differ from the model for the same salt and IV"})
		}
		std := req["cipher"] == "aes-128-ctr" && req["kdf"] == "scrypt" && req["version"] == "3" && req["fileDklen"] == "32" && req["fileR"] == "8" && req["fileP"] == "1" && len(str(req, "salt")) == 64 && len(str(req, "iv")) == 32 && fmt.Sprint(req["fileN"]) == fmt.Sprint(req["n"])
		if !std {
			fs = append(fs, Finding{Kind: "violation", Region: "ks.create.nonstandard", Detail: "created file is not a standard scrypt V3 document with the preset's parameters"})
		}
	case "ks.read":
		var got any = "err"
		if m, isok := impl.(map[string]any); isok {
			o := m["ok"].(map[string]any)
			got = ok(o["key"])
			if mo, has := o["metaOK"]; has && mo != true {
				fs = append(fs, Finding{Kind: "violation", Region: "ks.read.metadata", Detail: "id / version / extra metadata not returned as written"})
			}
		}
		if !same(got, orc["model"]) {
			fs = append(fs, Finding{Kind: "mismatch", Region: "ks.read", Detail: "ReadWalletFile differs from model"})
		}
		spec, specHas := orc["spec"].(string)
		// soundness: never a key an independent V3 reader would not derive
		if m, accepted := got.(map[string]any); accepted {
			if !specHas || m["ok"] != spec {
				region := "ks.read.unsound"
				if f, isMap := req["file"].(map[string]any); isMap && f["cipher"] != "aes-128-ctr" {
					region = "ks.read.cipher-unchecked"
				}
				fs = append(fs, Finding{Kind: "violation", Region: region, Detail: "a key was returned that the independent V3 reader does not derive from this file and password"})
			}
		}
		if ek, has := req["expectKey"].(string); has {
			if !same(got, ok(ek)) {
				fs = append(fs, Finding{Kind: "violation", Region: "ks.read.roundtrip", Detail: "standard file not read back to its key"})
			}
			if !specHas || spec != ek {
				fs = append(fs, Finding{Kind: "violation", Region: "ks.read.interop", Detail: "the independent V3 reader does not decrypt this file to the same key"})
			}
		}
		if req["expectReject"] == true && got != "err" {
			fs = append(fs, Finding{Kind: "violation", Region: "ks.read.accepts-tampered", Detail: "wrong password / tampered file returned a key"})
		}
	}
	return fs
}

var _ = big.NewInt
