//go:build verif

package main

import (
	"crypto/hmac"
	"crypto/sha256"
	"hash"
)

func hmacNew(key []byte) hash.Hash { return hmac.New(sha256.New, key) }
