//go:build verif

package main

import (
	"context"
	"encoding/json"
	"fmt"
	"math/big"
	"strings"
	"sync"
	"sync/atomic"

	"github.com/hyperledger/firefly-signer/pkg/ethtypes"
)

// the two external library calls of BigIntegerFromString, evaluated with the real libraries
func extFloat(s string) string {
	f, _, err := big.ParseFloat(s, 10, 256, big.ToNearestEven)
	if err != nil {
		return "fail"
	}
	i, acc := f.Int(nil)
	if acc != big.Exact || i == nil {
		return "notint"
	}
	return i.String()
}

func extRat(s string) string {
	r, okk := new(big.Rat).SetString(s)
	if !okk {
		return "fail"
	}
	if !r.IsInt() {
		return "notint"
	}
	return r.Num().String()
}

func pow2(e uint) *big.Int { return new(big.Int).Lsh(big.NewInt(1), e) }

func c19Ints(r *Rng) []*big.Int {
	var out []*big.Int
	for _, e := range []uint{0, 1, 8, 53, 63, 64, 128, 255, 256, 260} {
		p := pow2(e)
		out = append(out, p, new(big.Int).Sub(p, big.NewInt(1)), new(big.Int).Add(p, big.NewInt(1)))
	}
	out = append(out, big.NewInt(0), big.NewInt(10), big.NewInt(100), big.NewInt(1000000))
	for i := 0; i < 12; i++ {
		out = append(out, new(big.Int).SetBytes(r.Bytes(1+r.Intn(34))))
	}
	return out
}

// spellings of integer z: decimal, hex, exponent forms (exactly denoting z), plus near-miss fractional ones
func spellings(r *Rng, z *big.Int) []string {
	d := z.String()
	out := []string{d, "0x" + z.Text(16), "0x" + strings.ToUpper(z.Text(16)), "0x00" + z.Text(16), "-" + d, "+" + d, "0" + d, d + ".0", d + ".000", d + "e0", d + "E+0", d + "e-0",
		d + "0e-1", d + "000e-3", d + ".5", d + ".0000000000000000000000000000000000000000000000000000000000000000000000000000000000000000001",
		d + "e1", d + "e-1", d + "e+30"}
	// d.ddde+k
	if len(d) > 1 {
		out = append(out, d[:1]+"."+d[1:]+"e"+fmt.Sprint(len(d)-1), d[:1]+"."+d[1:]+"e+"+fmt.Sprint(len(d)-1), d[:1]+"."+d[1:]+"E"+fmt.Sprint(len(d)-2))
		k := 1 + r.Intn(len(d)-1)
		out = append(out, d[:k]+"."+d[k:]+"e"+fmt.Sprint(len(d)-k), d[:k]+"."+d[k:]+"e"+fmt.Sprint(len(d)-k+1))
	}
	// trailing zeros folded into the exponent
	t := strings.TrimRight(d, "0")
	if t != "" && t != d {
		out = append(out, t+"e"+fmt.Sprint(len(d)-len(t)), t+"e+"+fmt.Sprint(len(d)-len(t)))
	}
	out = append(out, "0."+d+"e"+fmt.Sprint(len(d)), "0.0"+d+"e"+fmt.Sprint(len(d)+1))
	return out
}

var junkNums = []string{"", " ", "0x", "0X1f", "0b101", "0o17", "017", "08", "1_000", "1__0", "_1", "1_", "0x_1f", "0_7", "1p5", "0x1p4", "Inf", "-Inf", "NaN", "nan", "1e", "e1", ".5", "5.", ".", "-", "+", "--1", "1e-1000001", "1e99999999999", "1e600", "1e-600", "١٢", "1 ", " 1", "1\n", "0xGG", "12a", "1.2.3", "1e1.5", "0x-1", "-0x1", "-0", "-0.0", "1e+", "0e0", "00", "0.0e-5", "1/2", "3/1"}

func randNumText(r *Rng) string {
	const alpha = "0123456789abcdefxXeE+-._ob019 p"
	n := 1 + r.Intn(14)
	var sb strings.Builder
	for i := 0; i < n; i++ {
		sb.WriteByte(alpha[r.Intn(len(alpha))])
	}
	return sb.String()
}

func jsonKind(raw []byte) (string, string) {
	var v any
	d := json.NewDecoder(strings.NewReader(string(raw)))
	d.UseNumber()
	if err := d.Decode(&v); err != nil {
		return "invalid", ""
	}
	switch t := v.(type) {
	case json.Number:
		return "number", t.String()
	case string:
		return "string", t
	}
	return "other", ""
}

func init() {
	register(&Suite{
		Prop:     "C19",
		Parallel: true,
		Gen: func(c *Ctx) {
			r := c.R
			rounds := 1
			if c.Thorough() {
				rounds = 12
			}
			addText := func(s, tag string) {
				// texts whose value has thousands of digits (huge exponents) are outside the property's domain and
				// would only measure bignum printing: skipped, counted
				if len(extFloat(s)) > 2000 || len(extRat(s)) > 2000 {
					c.Tags["skipped.hugevalue"]++
					return
				}
				c.Add(map[string]any{"op": "eth.bigint", "text": s, "float": extFloat(s), "rat": extRat(s)}, tag)
				// as JSON string and (when it lexes as one) as a JSON number
				rawS, _ := json.Marshal(s)
				k, t := jsonKind(rawS)
				c.Add(map[string]any{"op": "eth.hexint", "raw": string(rawS), "kind": k, "text": t, "float": extFloat(t), "rat": extRat(t)}, tag+".jsonstring")
				k2, t2 := jsonKind([]byte(s))
				c.Add(map[string]any{"op": "eth.hexint", "raw": s, "kind": k2, "text": t2, "float": extFloat(t2), "rat": extRat(t2)}, tag+".jsonraw."+k2)
			}
			for round := 0; round < rounds; round++ {
				for _, z := range c19Ints(r) {
					for _, s := range spellings(r, z) {
						addText(s, "spelling")
					}
				}
				for i := 0; i < 400; i++ {
					addText(randNumText(r), "randtext")
				}
				// long mantissas (70–90 digits) with exponents
				for i := 0; i < 40; i++ {
					n := 70 + r.Intn(21)
					var sb strings.Builder
					sb.WriteByte(byte('1' + r.Intn(9)))
					for k := 1; k < n; k++ {
						sb.WriteByte(byte('0' + r.Intn(10)))
					}
					d := sb.String()
					k := 1 + r.Intn(n-1)
					addText(d[:k]+"."+d[k:]+"e"+fmt.Sprint(n-k), "longmantissa.exact")
					addText(d[:k]+"."+d[k:]+"e"+fmt.Sprint(n-k-1-r.Intn(3)), "longmantissa.frac")
					addText(d+"e"+fmt.Sprint(r.Intn(30)), "longmantissa.big")
				}
			}
			for _, s := range junkNums {
				addText(s, "junk")
			}
			for _, raw := range []string{"null", "true", "[]", "{}", "[1]", `{"a":1}`, `"1"`, `"1" `, ` 7`, `1 2`, `"`, ``} {
				k, t := jsonKind([]byte(raw))
				c.Add(map[string]any{"op": "eth.hexint", "raw": raw, "kind": k, "text": t, "float": extFloat(t), "rat": extRat(t)}, "jsonkind."+k)
			}
			// addresses and byte strings
			nA := 300
			if c.Thorough() {
				nA = 5000
			}
			for i := 0; i < nA; i++ {
				n := Pick(r, []int{20, 20, 20, 20, 19, 21, 0, 1, 32})
				b := r.Bytes(n)
				h := hx(b)
				switch r.Intn(8) {
				case 0:
					h = strings.ToUpper(h)
				case 1: // mixed case
					bs := []byte(h)
					for k := range bs {
						if r.Bool() {
							bs[k] = strings.ToUpper(string(bs[k]))[0]
						}
					}
					h = string(bs)
				case 2:
					if len(h) > 0 {
						h = h[:len(h)-1] // odd length
					}
				case 3:
					if len(h) > 3 {
						bs := []byte(h)
						bs[r.Intn(len(bs))] = Pick(r, []byte{'g', 'x', ' ', 'G', '-'})
						h = string(bs)
					}
				}
				pre := Pick(r, []string{"0x", "0x", "", "", "0X", "0x0x", " 0x"})
				c.Add(map[string]any{"op": "eth.addr", "text": pre + h}, fmt.Sprintf("addr.len%d", n))
				if i == 0 {
					c.Add(map[string]any{"op": "eth.addr", "text": "0x" + strings.Repeat("00", 20), "concurrentFormat": true}, "addr.concurrent-format")
				}
				bb := r.Bytes(r.LogLen(1024))
				hb := hx(bb)
				if r.Intn(4) == 0 {
					hb = strings.ToUpper(hb)
				}
				if r.Intn(10) == 0 && len(hb) > 0 {
					hb = hb[1:]
				}
				if r.Intn(12) == 0 && len(hb) > 2 {
					bs := []byte(hb)
					bs[r.Intn(len(bs))] = Pick(r, []byte{'g', 'x', 'X', ' ', '-', '_', '+'})
					hb = string(bs)
				}
				c.Add(map[string]any{"op": "eth.hexbytes", "text": Pick(r, []string{"0x", "0x", "0x", "", "", "", "0X", "0x0x", "0x0X", " 0x", "0x ", "00x", "x"}) + hb}, "hexbytes")
			}
		},
		Impl: func(req map[string]any) any {
			switch str(req, "op") {
			case "eth.bigint":
				i, err := ethtypes.BigIntegerFromString(context.Background(), str(req, "text"))
				if err != nil {
					return "err"
				}
				return ok(i.String())
			case "eth.hexint":
				out := map[string]any{}
				var h ethtypes.HexInteger
				if err := h.UnmarshalJSON([]byte(str(req, "raw"))); err != nil {
					out["hexint"] = "err"
				} else {
					b, _ := json.Marshal(&h)
					var s string
					_ = json.Unmarshal(b, &s)
					out["hexint"] = ok(s)
					// parse back what was printed
					var h2 ethtypes.HexInteger
					if err := json.Unmarshal(b, &h2); err != nil || h2.BigInt().Cmp(h.BigInt()) != 0 {
						out["reparse"] = "differs"
					}
				}
				var u ethtypes.HexUint64
				if err := u.UnmarshalJSON([]byte(str(req, "raw"))); err != nil {
					out["u64"] = "err"
				} else {
					b, _ := json.Marshal(u)
					var s string
					_ = json.Unmarshal(b, &s)
					out["u64"] = ok(s)
					var u2 ethtypes.HexUint64
					if err := json.Unmarshal(b, &u2); err != nil || u2 != u {
						out["reparse"] = "differs"
					}
				}
				return out
			case "eth.addr":
				if req["concurrentFormat"] == true {
					// the printed forms of a few addresses, computed from 8 goroutines at once, against the sequential ones
					var addrs []*ethtypes.Address0xHex
					var want []string
					for k := 0; k < 16; k++ {
						a, _ := ethtypes.NewAddress(fmt.Sprintf("%040x", 0x9e3779b97f4a7c15*uint64(k+1)))
						addrs = append(addrs, a)
						want = append(want, ethtypes.AddressWithChecksum(*a).String()+a.String()+ethtypes.AddressPlainHex(*a).String())
					}
					var bad int64
					var wg sync.WaitGroup
					for g := 0; g < 8; g++ {
						wg.Add(1)
						go func(g int) {
							defer wg.Done()
							defer func() {
								if rec := recover(); rec != nil {
									atomic.AddInt64(&bad, 1)
								}
							}()
							for n := 0; n < 4000; n++ {
								k := (g + n) % len(addrs)
								if ethtypes.AddressWithChecksum(*addrs[k]).String()+addrs[k].String()+ethtypes.AddressPlainHex(*addrs[k]).String() != want[k] {
									atomic.AddInt64(&bad, 1)
								}
							}
						}(g)
					}
					wg.Wait()
					return map[string]any{"concurrentFormat": true, "bad": bad}
				}
				a, err := ethtypes.NewAddress(str(req, "text"))
				if err != nil {
					return "err"
				}
				return ok(map[string]any{"hex0x": a.String(), "plain": ethtypes.AddressPlainHex(*a).String(), "checksum": ethtypes.AddressWithChecksum(*a).String()})
			case "eth.hexbytes":
				// three independent entry points: the constructor and the two JSON unmarshallers. Each is judged on its
				// own (an invalid text must be refused by all of them), so none is skipped when another one errs.
				text := str(req, "text")
				raw, _ := json.Marshal(text)
				res := func(b []byte, err error) string {
					if err != nil {
						return "err"
					}
					return "ok:" + hx(b)
				}
				b, err := ethtypes.NewHexBytes0xPrefix(text)
				var hp ethtypes.HexBytesPlain
				e2 := json.Unmarshal(raw, &hp)
				var h0 ethtypes.HexBytes0xPrefix
				e3 := json.Unmarshal(raw, &h0)
				r1, r2, r3 := res(b, err), res(hp, e2), res(h0, e3)
				if r1 != r2 || r1 != r3 {
					return map[string]any{"pathsDiffer": true, "ctor": r1, "jsonPlain": r2, "json0x": r3}
				}
				if err != nil {
					return "err"
				}
				return ok(map[string]any{"plain": ethtypes.HexBytesPlain(b).String(), "hex0x": b.String()})
			}
			return "bad-op"
		},
		Judge: func(c *Ctx, req map[string]any, impl any, orc map[string]any) []Finding {
			var fs []Finding
			if impl == "panic" {
				return []Finding{{Kind: "violation", Region: str(req, "op") + ".panic", Detail: "panicked"}}
			}
			canonHex := func(dec string) string {
				z, _ := new(big.Int).SetString(dec, 10)
				return "0x" + z.Text(16)
			}
			switch str(req, "op") {
			case "eth.bigint":
				if !same(impl, orc["model"]) {
					fs = append(fs, Finding{Kind: "mismatch", Region: "eth.bigint", Detail: "BigIntegerFromString differs from model"})
				}
				if den, isInt := orc["denote"].(map[string]any); isInt {
					if m, accepted := impl.(map[string]any); accepted && m["ok"] != den["int"] {
						fs = append(fs, Finding{Kind: "violation", Region: "eth.bigint.inexact", Detail: "accepted text but returned a different integer than it denotes"})
					}
				} else if orc["denote"] == "noninteger" {
					if _, accepted := impl.(map[string]any); accepted {
						fs = append(fs, Finding{Kind: "violation", Region: "eth.bigint.fraction", Detail: "non-integral text accepted (rounded)"})
					}
				}
			case "eth.hexint":
				m := impl.(map[string]any)
				if !same(m["hexint"], orc["model"]) {
					fs = append(fs, Finding{Kind: "mismatch", Region: "eth.hexint", Detail: "HexInteger unmarshal/print differs from model"})
				}
				if !same(m["u64"], orc["modelU64"]) {
					fs = append(fs, Finding{Kind: "mismatch", Region: "eth.hexu64", Detail: "HexUint64 unmarshal/print differs from model"})
				}
				if m["reparse"] != nil {
					fs = append(fs, Finding{Kind: "violation", Region: "eth.hexint.reparse", Detail: "printed form does not parse back to the same value"})
				}
				if den, isInt := orc["denote"].(map[string]any); isInt {
					z, _ := new(big.Int).SetString(den["int"].(string), 10)
					// soundness: whatever is accepted is exactly z, printed canonically
					for _, k := range []string{"hexint", "u64"} {
						if a, accepted := m[k].(map[string]any); accepted && a["ok"] != canonHex(z.String()) {
							fs = append(fs, Finding{Kind: "violation", Region: "eth." + k + ".inexact", Detail: "accepted but printed value is not the canonical hex of the denoted integer"})
						}
					}
					if z.Sign() < 0 {
						if _, accepted := m["hexint"].(map[string]any); accepted {
							fs = append(fs, Finding{Kind: "violation", Region: "eth.hexint.negative", Detail: "negative accepted"})
						}
					}
					if z.Sign() < 0 || z.BitLen() > 64 {
						if _, accepted := m["u64"].(map[string]any); accepted {
							fs = append(fs, Finding{Kind: "violation", Region: "eth.hexu64.range", Detail: "out-of-range value accepted by the 64-bit type"})
						}
					}
					// completeness for plain spellings: in-range decimal / hex / plain number must be accepted
					t := str(req, "text")
					plain := !strings.ContainsAny(t, ".eE") || strings.HasPrefix(t, "0x")
					if plain && z.Sign() >= 0 {
						if _, accepted := m["hexint"].(map[string]any); !accepted {
							fs = append(fs, Finding{Kind: "violation", Region: "eth.hexint.rejects-valid", Detail: "plain in-range integer rejected"})
						}
					}
				} else if orc["denote"] == "noninteger" {
					for _, k := range []string{"hexint", "u64"} {
						if _, accepted := m[k].(map[string]any); accepted {
							fs = append(fs, Finding{Kind: "violation", Region: "eth." + k + ".fraction", Detail: "non-integral text accepted"})
						}
					}
				}
			case "eth.addr":
				if m, isMap := impl.(map[string]any); isMap && m["concurrentFormat"] == true {
					if fmt.Sprint(m["bad"]) != "0" {
						return []Finding{{Kind: "violation", Region: "eth.addr.concurrent-format", Detail: fmt.Sprintf("%v of 32000 address renderings (checksum / 0x / plain) made from 8 goroutines differ from the same renderings made sequentially", m["bad"])}}
					}
					return nil
				}
				if !same(impl, map[string]any{}) {
					mo := orc["model"]
					if mm, isok := mo.(map[string]any); isok {
						o := mm["ok"].(map[string]any)
						want := ok(map[string]any{"hex0x": o["hex0x"], "plain": o["plain"], "checksum": o["checksum"]})
						if !same(impl, want) {
							fs = append(fs, Finding{Kind: "mismatch", Region: "eth.addr", Detail: "address parse/print differs from model"})
						}
						if o["checksum"] != o["eip55"] {
							fs = append(fs, Finding{Kind: "violation", Region: "eth.addr.eip55", Detail: "checksum form is not EIP-55"})
						}
						if im, isok2 := impl.(map[string]any); isok2 && im["ok"].(map[string]any)["checksum"] != o["eip55"] {
							fs = append(fs, Finding{Kind: "violation", Region: "eth.addr.eip55", Detail: "checksum form is not EIP-55"})
						}
					} else if !same(impl, mo) {
						fs = append(fs, Finding{Kind: "mismatch", Region: "eth.addr", Detail: "address parse differs from model"})
					}
				}
				// iff: accept ⇔ optional 0x + exactly 40 hex digits
				t := strings.TrimPrefix(str(req, "text"), "0x")
				valid := len(t) == 40
				for _, ch := range t {
					if !strings.ContainsRune("0123456789abcdefABCDEF", ch) {
						valid = false
					}
				}
				_, accepted := impl.(map[string]any)
				if accepted != valid {
					fs = append(fs, Finding{Kind: "violation", Region: "eth.addr.iff", Detail: "acceptance differs from '40 hex digits with optional 0x'"})
				}
				if accepted && strings.ToLower(impl.(map[string]any)["ok"].(map[string]any)["plain"].(string)) != strings.ToLower(t) {
					fs = append(fs, Finding{Kind: "violation", Region: "eth.addr.bytes", Detail: "parsed bytes differ from the text"})
				}
			case "eth.hexbytes":
				if !same(impl, orc["model"]) {
					fs = append(fs, Finding{Kind: "mismatch", Region: "eth.hexbytes", Detail: "hex bytes parse/print differs from model"})
				}
				t := strings.TrimPrefix(str(req, "text"), "0x")
				valid := len(t)%2 == 0
				for _, ch := range t {
					if !strings.ContainsRune("0123456789abcdefABCDEF", ch) {
						valid = false
					}
				}
				im, accepted := impl.(map[string]any)
				if accepted && im["pathsDiffer"] == true {
					want := "err"
					if valid {
						want = "ok:" + strings.ToLower(t)
					}
					for _, k := range []string{"ctor", "jsonPlain", "json0x"} {
						if im[k] != want {
							fs = append(fs, Finding{Kind: "violation", Region: "eth.hexbytes.iff." + k, Detail: fmt.Sprintf("%s: got %v, the hex text requires %s", k, im[k], trunc(want, 80))})
						}
					}
				} else if accepted != valid || (accepted && im["ok"].(map[string]any)["plain"] != strings.ToLower(t)) {
					fs = append(fs, Finding{Kind: "violation", Region: "eth.hexbytes.iff", Detail: "acceptance / bytes differ from the hex text"})
				}
			}
			return fs
		},
	})
}
