//go:build verif

package main

import (
	"context"
	"encoding/json"
	"fmt"
	"math/big"
	"os"
	"path"
	"regexp"
	"strings"
	"text/template"
	"time"

	"github.com/hyperledger/firefly-signer/pkg/ethsigner"
	"github.com/hyperledger/firefly-signer/pkg/ethtypes"
	"github.com/hyperledger/firefly-signer/pkg/fswallet"
	"github.com/hyperledger/firefly-signer/pkg/secp256k1"
	"github.com/pelletier/go-toml"
	"gopkg.in/yaml.v2"
)

type fswAccount struct {
	key  []byte
	addr ethtypes.Address0xHex
	pw   string
	doc  []byte
}

// evaluates the metadata branch with the real libraries (same calls as getKeyAndPasswordFiles / goTemplateToString)
func evalMeta(format string, content []byte, keyT, pwT *template.Template) map[string]any {
	var md map[string]interface{}
	var err error
	switch format {
	case "toml", "tml":
		err = toml.Unmarshal(content, &md)
	case "json":
		err = json.Unmarshal(content, &md)
	case "yaml", "yml":
		err = yaml.Unmarshal(content, &md)
	}
	if err != nil {
		return map[string]any{"err": true}
	}
	run := func(t *template.Template) string {
		if t == nil {
			return ""
		}
		var sb strings.Builder
		e := t.Execute(&sb, md)
		if e != nil || strings.Contains(sb.String(), "<no value>") {
			return ""
		}
		return sb.String()
	}
	return map[string]any{"kf": run(keyT), "pf": run(pwT)}
}

type fswScenario struct {
	req   map[string]any
	dir   string
	conf  *fswallet.Config
	ops   []map[string]any
	later map[string][]byte // files written before the second refresh
}

func h0x(a ethtypes.Address0xHex, with0x bool) string {
	h := a.String()
	if !with0x {
		h = strings.TrimPrefix(h, "0x")
	}
	return h
}

const fswRegex = `^(?:UTC--[0-9TZ\-]+--)?((?:0x)?[0-9a-fA-F]{38,42})\.json$`

func buildFswScenario(r *Rng, root string, idx int) *fswScenario {
	dir := path.Join(root, fmt.Sprintf("w%d", idx))
	_ = os.MkdirAll(dir, 0o755)
	pwDir := dir
	conf := &fswallet.Config{Path: dir, SignerCacheSize: "10MB", SignerCacheTTL: "1h", DisableListener: true}
	mode := Pick(r, []string{"ext", "ext", "ext0x", "regex", "toml", "autotoml", "yaml", "json"})
	conf.Filenames.PasswordTrimSpace = r.Bool()
	conf.Metadata.Format = "none"
	switch mode {
	case "ext":
		conf.Filenames.PrimaryExt = ".key.json"
		conf.Filenames.PasswordExt = ".pwd"
		conf.Metadata.Format = Pick(r, []string{"auto", "none", ""})
	case "ext0x":
		conf.Filenames.PrimaryExt = ".key.json"
		conf.Filenames.PasswordExt = ".password"
		conf.Filenames.With0xPrefix = true
	case "regex":
		conf.Filenames.PrimaryMatchRegex = fswRegex
		conf.Filenames.PrimaryExt = ".json"
		conf.Filenames.PasswordExt = ".pwd"
		conf.Metadata.Format = "none"
	case "toml", "autotoml":
		conf.Filenames.PrimaryExt = ".toml"
		conf.Metadata.Format = map[string]string{"toml": "toml", "autotoml": "auto"}[mode]
		conf.Metadata.KeyFileProperty = `{{ index .signing "key-file" }}`
		conf.Metadata.PasswordFileProperty = `{{ index .signing "password-file" }}`
	case "yaml":
		conf.Filenames.PrimaryExt = ".yaml"
		conf.Metadata.Format = "yaml"
		conf.Metadata.KeyFileProperty = `{{ .keyfile }}`
		conf.Metadata.PasswordFileProperty = `{{ .pwfile }}`
	case "json":
		conf.Filenames.PrimaryExt = ".meta.json"
		conf.Metadata.Format = "json"
		conf.Metadata.KeyFileProperty = `{{ .keyfile }}`
		conf.Metadata.PasswordFileProperty = `{{ .pwfile }}`
	}
	if r.Intn(3) == 0 && (mode == "ext" || mode == "ext0x" || mode == "regex") {
		pwDir = path.Join(root, fmt.Sprintf("pw%d", idx))
		_ = os.MkdirAll(pwDir, 0o755)
		conf.Filenames.PasswordPath = pwDir
	}
	useDefaultPw := r.Intn(3) == 0
	defaultPw := "defaultpw"
	if useDefaultPw {
		conf.DefaultPasswordFile = path.Join(root, fmt.Sprintf("default%d.pwd", idx))
		_ = os.WriteFile(conf.DefaultPasswordFile, []byte(defaultPw), 0o600)
	}
	keyT, _ := template.New("k").Parse(conf.Metadata.KeyFileProperty)
	pwT, _ := template.New("p").Parse(conf.Metadata.PasswordFileProperty)
	if conf.Metadata.KeyFileProperty == "" {
		keyT, pwT = nil, nil
	}
	effFormat := conf.Metadata.Format
	if strings.ToLower(effFormat) == "auto" {
		effFormat = strings.TrimPrefix(conf.Filenames.PrimaryExt, ".")
	}
	isMeta := effFormat == "toml" || effFormat == "tml" || effFormat == "json" || effFormat == "yaml" || effFormat == "yml"

	n := 2 + r.Intn(3)
	var accts []*fswAccount
	seenAddr := map[string]bool{}
	for i := 0; i < n; i++ {
		key := genKey(r)
		kp := secp256k1.KeyPairFromBytes(key)
		for seenAddr[hx(kp.Address[:])] { // distinct keys within one scenario
			key = genKey(r)
			kp = secp256k1.KeyPairFromBytes(key)
		}
		seenAddr[hx(kp.Address[:])] = true
		pw := Pick(r, []string{"pw-" + fmt.Sprint(i), "with space ", "p", ""})
		if useDefaultPw && r.Bool() {
			pw = defaultPw
		}
		accts = append(accts, &fswAccount{key: key, addr: kp.Address, pw: pw, doc: externalV3(r, "scrypt", []byte(pw), key, 1<<(1+r.Intn(3)), 1, 1, 0)})
	}
	files := map[string][]byte{}
	later := map[string][]byte{}
	expect := map[string]any{}
	var pwDirs []string
	nameOf := func(a *fswAccount) string {
		h := hx(a.addr[:])
		if conf.Filenames.With0xPrefix || (mode == "regex" && r.Bool()) {
			h = "0x" + h
		}
		if mode == "regex" && r.Bool() {
			return "UTC--2024-01-01T00-00-00Z--" + h + ".json"
		}
		return h + conf.Filenames.PrimaryExt
	}
	for i, a := range accts {
		target := files
		if i == n-1 && r.Bool() {
			target = later // appears only before the second refresh
		}
		primary := path.Join(dir, nameOf(a))
		doc := a.doc
		variant := Pick(r, []string{"ok", "ok", "ok", "mismatch", "nopassword", "badkeyfile"})
		if variant == "mismatch" && n > 1 {
			doc = accts[(i+1)%n].doc // key material of another account under this address's name
			a = &fswAccount{key: accts[(i+1)%n].key, addr: a.addr, pw: accts[(i+1)%n].pw, doc: doc}
		}
		if variant == "badkeyfile" {
			doc = []byte(`{"not":"a keystore"}`)
		}
		pwContent := a.pw
		if conf.Filenames.PasswordTrimSpace && a.pw == strings.TrimSpace(a.pw) && r.Bool() {
			pwContent = a.pw + "\n"
		}
		pwFileWritten := variant != "nopassword" && !(useDefaultPw && a.pw == defaultPw && r.Bool())
		// with a default password in play: the metadata may carry no password entry at all, or the per-key
		// password path may be a directory (unreadable as a file) - the default file is then the usable password
		noPwEntry := isMeta && !pwFileWritten && r.Bool()
		pwIsDir := !pwFileWritten && !noPwEntry && useDefaultPw && r.Intn(3) == 0
		if isMeta {
			keyFile := path.Join(root, fmt.Sprintf("keys%d-%d.json", idx, i))
			pwFile := path.Join(root, fmt.Sprintf("keys%d-%d.pw", idx, i))
			target[keyFile] = doc
			if pwFileWritten {
				target[pwFile] = []byte(pwContent)
			}
			var metaDoc string
			switch effFormat {
			case "toml":
				metaDoc = fmt.Sprintf("[signing]\ntype = \"file-based-signer\"\nkey-file = %q\npassword-file = %q\n", keyFile, pwFile)
				if noPwEntry {
					metaDoc = fmt.Sprintf("[signing]\ntype = \"file-based-signer\"\nkey-file = %q\n", keyFile)
				}
			case "yaml":
				metaDoc = fmt.Sprintf("keyfile: %q\npwfile: %q\n", keyFile, pwFile)
				if noPwEntry {
					metaDoc = fmt.Sprintf("keyfile: %q\n", keyFile)
				}
			case "json":
				mm := map[string]any{"keyfile": keyFile, "pwfile": pwFile}
				if noPwEntry {
					delete(mm, "pwfile")
				}
				b, _ := json.Marshal(mm)
				metaDoc = string(b)
			}
			if pwIsDir {
				pwDirs = append(pwDirs, pwFile)
			}
			if r.Intn(8) == 0 {
				metaDoc = "this is ::: not parseable [[["
				variant = "badmeta"
			}
			target[primary] = []byte(metaDoc)
		} else {
			target[primary] = doc
			if pwFileWritten {
				h := a.addr.String()
				if !conf.Filenames.With0xPrefix {
					h = strings.TrimPrefix(h, "0x")
				}
				target[path.Join(pwDir, h+conf.Filenames.PasswordExt)] = []byte(pwContent)
			} else if pwIsDir {
				pwDirs = append(pwDirs, path.Join(pwDir, h0x(a.addr, conf.Filenames.With0xPrefix)+conf.Filenames.PasswordExt))
			}
		}
		okExpected := variant == "ok" && (pwFileWritten || (useDefaultPw && a.pw == defaultPw))
		if variant == "ok" && conf.Filenames.PasswordTrimSpace && a.pw != strings.TrimSpace(a.pw) && pwFileWritten {
			okExpected = false // the configured trimming changes this password
		}
		if okExpected {
			expect[hx(a.addr[:])] = hx(a.key)
		} else if variant == "mismatch" || variant == "badkeyfile" || variant == "badmeta" {
			expect[hx(a.addr[:])] = "reject"
		}
	}
	// a second file name that spells the same address differently (0x prefix toggled, upper-case hex, UTC-- prefix):
	// same content as the first, present from the start or appearing before the second refresh. The address must
	// be listed once.
	if n > 0 && r.Intn(3) == 0 {
		a := accts[r.Intn(n)]
		first := ""
		for p := range files {
			if strings.HasPrefix(p, dir+"/") && strings.Contains(strings.ToLower(p), hx(a.addr[:])) {
				first = p
			}
		}
		if first != "" {
			h := hx(a.addr[:])
			base := strings.TrimPrefix(first, dir+"/")
			var alias string
			switch {
			case mode == "regex" && !strings.HasPrefix(base, "UTC--") && r.Bool():
				alias = "UTC--2025-02-02T00-00-00Z--" + base
			case strings.Contains(base, "0x"+h):
				alias = strings.Replace(base, "0x"+h, h, 1)
			case r.Bool():
				alias = strings.Replace(base, h, "0x"+h, 1)
			default:
				alias = strings.Replace(base, h, strings.ToUpper(h), 1)
			}
			if alias != base && alias != "" {
				if r.Bool() {
					files[path.Join(dir, alias)] = files[first]
				} else {
					later[path.Join(dir, alias)] = files[first]
				}
			}
		}
	}
	// near-miss and unrelated names, a sub-directory with a key-like name
	h40 := hx(r.Bytes(20))
	for _, nm := range []string{h40, h40 + ".txt", hx(r.Bytes(19)) + conf.Filenames.PrimaryExt, hx(r.Bytes(21)) + conf.Filenames.PrimaryExt, "0x0x" + h40 + conf.Filenames.PrimaryExt,
		strings.ToUpper(hx(r.Bytes(20))) + conf.Filenames.PrimaryExt, "README.md", "UTC--x--" + h40 + ".json", h40 + conf.Filenames.PrimaryExt + ".bak"} {
		if r.Intn(2) == 0 {
			files[path.Join(dir, nm)] = []byte("x")
		}
	}
	subdir := path.Join(dir, hx(r.Bytes(20))+conf.Filenames.PrimaryExt)
	_ = os.MkdirAll(subdir, 0o755)
	for _, d := range pwDirs {
		_ = os.MkdirAll(d, 0o755)
	}
	store := path.Join(root, fmt.Sprintf("store%d", idx))
	for p, b := range files {
		// a key file may be a symbolic link to a regular file elsewhere (the secret-volume layout): it is a file
		// whose name matches all the same
		if strings.HasPrefix(p, dir+"/") && r.Intn(4) == 0 {
			_ = os.MkdirAll(store, 0o755)
			target := path.Join(store, path.Base(p))
			_ = os.WriteFile(target, b, 0o600)
			if os.Symlink(target, p) == nil {
				continue
			}
		}
		_ = os.WriteFile(p, b, 0o600)
	}
	all := map[string][]byte{}
	for p, b := range files {
		all[p] = b
	}
	for p, b := range later {
		all[p] = b
	}
	if useDefaultPw {
		all[conf.DefaultPasswordFile] = []byte(defaultPw)
	}
	// request for the model: cfg, fs (final), ks table, meta table
	fsj, ksj, metaj := map[string]any{}, map[string]any{}, map[string]any{}
	for p, b := range all {
		fsj[p] = hx(b)
		ksj[hx(b)] = describeKsFile(b)
		if isMeta && strings.HasPrefix(p, dir+"/") {
			metaj[p] = evalMeta(effFormat, b, keyT, pwT)
		}
	}
	cfgj := map[string]any{"path": dir, "primaryExt": conf.Filenames.PrimaryExt, "useRegex": conf.Filenames.PrimaryMatchRegex != "", "with0xPrefix": conf.Filenames.With0xPrefix,
		"passwordExt": conf.Filenames.PasswordExt, "passwordPath": conf.Filenames.PasswordPath, "passwordTrimSpace": conf.Filenames.PasswordTrimSpace,
		"defaultPasswordFile": conf.DefaultPasswordFile, "metadataFormat": conf.Metadata.Format}
	var addrs []string
	for _, a := range accts {
		addrs = append(addrs, hx(a.addr[:]))
	}
	addrs = append(addrs, hx(r.Bytes(20)))
	return &fswScenario{dir: dir, conf: conf, later: later,
		req: map[string]any{"op": "fsw.run", "cfg": cfgj, "fs": fsj, "ks": ksj, "meta": metaj, "addrs": addrs, "expect": expect, "mode": mode}}
}

func listViews(conf *fswallet.Config) []any {
	des, _ := os.ReadDir(conf.Path)
	var re *regexp.Regexp
	if conf.Filenames.PrimaryMatchRegex != "" {
		re = regexp.MustCompile(conf.Filenames.PrimaryMatchRegex)
	}
	var out []any
	for _, de := range des {
		fi, err := de.Info()
		if err != nil {
			continue
		}
		v := map[string]any{"name": fi.Name(), "isDir": fi.IsDir()}
		if re != nil {
			if m := re.FindStringSubmatch(fi.Name()); m != nil {
				v["capture"] = m[1]
			}
		}
		out = append(out, v)
	}
	return out
}

// c08ListenerDir: the account list with the file-system listener ON. After start-up a sub-directory whose name matches
// the naming rule and a real key file appear; once the listener has announced the file, the account list must hold the
// file's address and never the directory's — before and after a Refresh. Judged against the property directly.
func c08ListenerDir(c *Ctx, root string, idx int) {
	r := c.R
	ctx := context.Background()
	dir := path.Join(root, fmt.Sprintf("ld%d", idx))
	_ = os.MkdirAll(dir, 0o755)
	conf := &fswallet.Config{Path: dir, SignerCacheSize: "1MB", SignerCacheTTL: "1h"}
	conf.Metadata.Format = "none"
	mode := "ext"
	if idx%2 == 1 {
		conf.Filenames.PrimaryMatchRegex = fswRegex
		conf.Filenames.PrimaryExt = ".json"
		mode = "regex"
	} else {
		conf.Filenames.PrimaryExt = ".key.json"
	}
	w, err := fswallet.NewFilesystemWallet(ctx, conf)
	if err != nil {
		return
	}
	if err := w.Initialize(ctx); err != nil {
		return
	}
	dirAddr, fileAddr := hx(r.Bytes(20)), hx(r.Bytes(20))
	nameOf := func(a string) string {
		if mode == "regex" {
			return "UTC--2024-01-01T00-00-00Z--" + a + ".json"
		}
		return a + ".key.json"
	}
	_ = os.Mkdir(path.Join(dir, nameOf(dirAddr)), 0o755)
	_ = os.WriteFile(path.Join(dir, nameOf(dirAddr), "inner"), []byte("x"), 0o600) // a write event inside it, too
	_ = os.WriteFile(path.Join(dir, nameOf(fileAddr)), []byte("{}"), 0o600)
	listed := func() []any {
		accs, _ := w.GetAccounts(ctx)
		out := []any{}
		for _, a := range accs {
			out = append(out, hx(a[:]))
		}
		return out
	}
	has := func(l []any, a string) bool {
		for _, x := range l {
			if x == a {
				return true
			}
		}
		return false
	}
	deadline := time.Now().Add(3 * time.Second)
	for !has(listed(), fileAddr) && time.Now().Before(deadline) {
		time.Sleep(10 * time.Millisecond)
	}
	time.Sleep(30 * time.Millisecond)
	before := listed()
	_ = w.Refresh(ctx)
	after := listed()
	_ = w.Close()
	c.Add(map[string]any{"op": "fsw.listenerdir", "noModel": true, "mode": mode, "dirAddr": dirAddr, "fileAddr": fileAddr,
		"implResults": map[string]any{"before": before, "after": after}}, "listenerdir."+mode)
}

func init() {
	register(&Suite{
		Prop: "C08",
		Gen: func(c *Ctx) {
			r := c.R
			n := 60
			if c.Thorough() {
				n = 1500
			}
			root, _ := os.MkdirTemp("", "fsw")
			c.Notes["scratch"] = root
			for i := 0; i < n; i++ {
				sc := buildFswScenario(r, root, i)
				// run the implementation now (the directory is live), recording the views each Refresh saw
				ctx := context.Background()
				w, err := fswallet.NewFilesystemWallet(ctx, sc.conf)
				if err != nil {
					continue
				}
				var ops []any
				var implRes []any
				doRefresh := func(first bool) {
					views := listViews(sc.conf)
					var rerr error
					if first {
						rerr = w.Initialize(ctx)
					} else {
						rerr = w.Refresh(ctx)
					}
					accs, _ := w.GetAccounts(ctx)
					var l []any
					for _, a := range accs {
						l = append(l, hx(a[:]))
					}
					if len(views) == 0 {
						views = []any{}
					}
					ops = append(ops, map[string]any{"op": "refresh", "files": views})
					implRes = append(implRes, map[string]any{"accounts": l, "err": rerr != nil})
				}
				doGet := func(a string, sign bool) {
					var addr ethtypes.Address0xHex
					copy(addr[:], unhx(a))
					res := map[string]any{}
					func() {
						defer func() {
							if rec := recover(); rec != nil {
								res["get"] = "panic"
							}
						}()
						wf, gerr := w.GetWalletFile(ctx, addr)
						if gerr != nil {
							res["get"] = "err"
						} else {
							res["get"] = ok(hx(wf.PrivateKey()))
						}
						if sign {
							from, _ := json.Marshal(addr.String())
							tx := &ethsigner.Transaction{From: from, Nonce: ethtypes.NewHexInteger64(int64(r.Intn(100))), GasLimit: ethtypes.NewHexInteger64(21000), Value: ethtypes.NewHexInteger64(1)}
							if r.Bool() {
								tx.MaxFeePerGas = ethtypes.NewHexInteger64(5)
							}
							raw, serr := w.Sign(ctx, tx, 1337)
							if serr != nil {
								res["sign"] = "err"
							} else {
								rec, _, rerr := ethsigner.RecoverRawTransaction(ctx, raw, 1337)
								res["sign"] = rerr == nil && *rec == addr
							}
						}
					}()
					ops = append(ops, map[string]any{"op": "get", "addr": a})
					implRes = append(implRes, res)
				}
				doRefresh(true)
				addrs := sc.req["addrs"].([]string)
				for k := 0; k < len(addrs)*2; k++ {
					doGet(addrs[r.Intn(len(addrs))], r.Bool())
				}
				for p, b := range sc.later {
					_ = os.WriteFile(p, b, 0o600)
				}
				doRefresh(false)
				for _, a := range addrs {
					doGet(a, true)
					doGet(a, false) // cached
				}
				doRefresh(false)
				_ = w.Close()
				sc.req["ops"] = ops
				sc.req["implResults"] = implRes
				delete(sc.req, "addrs")
				c.Add(sc.req, "mode."+str(sc.req, "mode"))
			}
			for i := 0; i < 6; i++ {
				c08ListenerDir(c, root, i)
			}
			_ = os.RemoveAll(root)
		},
		Impl: func(req map[string]any) any { return req["implResults"] },
		Judge: func(c *Ctx, req map[string]any, impl any, orc map[string]any) []Finding {
			var fs []Finding
			if str(req, "op") == "fsw.listenerdir" {
				m, _ := impl.(map[string]any)
				for _, when := range []string{"before", "after"} {
					l, _ := m[when].([]any)
					hasDir, hasFile := false, false
					for _, x := range l {
						if x == req["dirAddr"] {
							hasDir = true
						}
						if x == req["fileAddr"] {
							hasFile = true
						}
					}
					if hasDir {
						fs = append(fs, Finding{Kind: "violation", Region: "fsw.accounts.subdir", Detail: "a sub-directory whose name matches the naming rule is listed as an account (listener on, " + when + " Refresh)"})
					}
					if !hasFile {
						fs = append(fs, Finding{Kind: "violation", Region: "fsw.accounts.listener", Detail: "a key file that appeared while the listener was running is not in the account list (" + when + " Refresh)"})
					}
					if len(l) > 2 || (len(l) == 2 && !hasDir) {
						fs = append(fs, Finding{Kind: "violation", Region: "fsw.accounts.extra", Detail: "the account list holds addresses no file was created for"})
					}
				}
				return fs
			}
			ires, _ := impl.([]any)
			mres, _ := orc["results"].([]any)
			ops, _ := req["ops"].([]any)
			expect, _ := req["expect"].(map[string]any)
			for i := range ires {
				if i >= len(mres) {
					break
				}
				ir, _ := ires[i].(map[string]any)
				mr, _ := mres[i].(map[string]any)
				op, _ := ops[i].(map[string]any)
				switch op["op"] {
				case "refresh":
					if !same(normList(ir["accounts"]), normList(mr["accounts"])) {
						fs = append(fs, Finding{Kind: "mismatch", Region: "fsw.accounts", Detail: fmt.Sprintf("account list differs from model at op %d", i)})
					}
					if !same(normList(ir["accounts"]), normList(mr["specAccounts"])) {
						fs = append(fs, Finding{Kind: "violation", Region: "fsw.accounts.spec", Detail: fmt.Sprintf("account list is not the de-duplicated set of addresses whose file names match the naming rule (op %d)", i)})
					}
				case "get":
					if ir["get"] == "panic" {
						fs = append(fs, Finding{Kind: "violation", Region: "fsw.get.panic", Detail: "GetWalletFile / Sign panicked"})
						continue
					}
					if !same(ir["get"], mr["get"]) {
						fs = append(fs, Finding{Kind: "mismatch", Region: "fsw.get", Detail: fmt.Sprintf("GetWalletFile differs from model at op %d", i)})
					}
					a := fmt.Sprint(op["addr"])
					if g, accepted := ir["get"].(map[string]any); accepted {
						// Tier A safety: the returned key derives the requested address
						kp := secp256k1.KeyPairFromBytes(unhx(fmt.Sprint(g["ok"])))
						if hx(kp.Address[:]) != a {
							fs = append(fs, Finding{Kind: "violation", Region: "fsw.get.wrong-key", Detail: "a wallet file whose key does not derive the requested address was returned"})
						}
					}
					if s, has := ir["sign"]; has && s == false {
						fs = append(fs, Finding{Kind: "violation", Region: "fsw.sign.wrong-signer", Detail: "a transaction signed for `from` does not recover to `from`"})
					}
					if e, has := expect[a]; has {
						if e == "reject" {
							if ir["get"] != "err" {
								fs = append(fs, Finding{Kind: "violation", Region: "fsw.get.accepts-bad", Detail: "key material under another address's name / unreadable key file was accepted"})
							}
						} else if ek, isStr := e.(string); isStr {
							// only once the file has been discovered (the address may appear at the second refresh)
							discovered := false
							for k := 0; k < i; k++ {
								if o2, _ := ops[k].(map[string]any); o2["op"] == "refresh" {
									for _, acc := range normList(ires[k].(map[string]any)["accounts"]) {
										if acc == a {
											discovered = true
										}
									}
								}
							}
							if discovered && !same(ir["get"], ok(ek)) {
								fs = append(fs, Finding{Kind: "violation", Region: "fsw.get.fails-valid", Detail: "matching key file with a usable password present, but the request failed"})
							}
						}
					}
				}
			}
			return fs
		},
	})
}

func normList(v any) []any {
	l, isList := v.([]any)
	if !isList || l == nil {
		return []any{}
	}
	return l
}

var _ = big.NewInt
