//go:build verif

package main

import (
	"context"
	"encoding/json"
	"fmt"
	"strings"

	"github.com/hyperledger/firefly-signer/pkg/abi"
)

func paramFromJSON(v any) *abi.Parameter {
	b, _ := json.Marshal(v)
	var p abi.Parameter
	_ = json.Unmarshal(b, &p)
	return &p
}

var elemSeeds = []string{"uint256", "uint8", "uint", "int", "int256", "int16", "uint248", "address", "bool", "string", "bytes", "bytes1", "bytes32", "bytes17", "function",
	"fixed", "ufixed", "fixed128x18", "ufixed8x1", "fixed256x80", "ufixed64x7"}

var arraySuffixes = []string{"", "", "", "[]", "[1]", "[3]", "[][]", "[2][]", "[][4]", "[0]", "[08]", "[4294967295]"}

func genValidParam(r *Rng, depth int) map[string]any {
	if depth > 0 && r.Intn(4) == 0 {
		n := r.Intn(4)
		comps := []any{}
		for i := 0; i < n; i++ {
			comps = append(comps, genValidParam(r, depth-1))
		}
		return map[string]any{"name": fmt.Sprintf("t%d", r.Intn(9)), "type": "tuple" + Pick(r, arraySuffixes), "components": comps}
	}
	return map[string]any{"name": fmt.Sprintf("p%d", r.Intn(9)), "type": Pick(r, elemSeeds) + Pick(r, arraySuffixes)}
}

const typeAlphabet = "abcdefghijklmnopqrstuvwxyz0123456789x[](), +-_ABCXYZ"

var explicitTypes = []string{"uint0", "uint7", "uint8", "uint256", "uint264", "uint65536", "uint65535", "uint008", "uint08", "uint+8", "uint-8", "uint 8", "uint8 ", " uint8", "Uint8", "UINT8", "uint8x", "uintx8",
	"int0", "int7", "int264", "int08", "bytes0", "bytes33", "bytes032", "bytes01", "bytes32", "bytes", "bytes[]", "bytes1[1]",
	"fixed0x1", "fixed8x0", "fixed8x81", "fixed264x1", "fixed7x1", "fixed8x", "fixedx8", "fixed8", "fixed08x1", "fixed8x01", "fixed8x1x1", "fixed128x18", "ufixed", "ufixed128x018", "fixed8X1",
	"address8", "address ", "bool1", "function24", "string1", "string[]", "tuple", "tuple8", "tuple[]", "tuple[2][]", "tuple8[]", "tuplex", "tuples",
	"uint256[", "uint256]", "uint256[]]", "uint256[[]", "uint256[-1]", "uint256[+1]", "uint256[4294967296]", "uint256[99999999999999999999999]", "uint256[abc]", "uint256[1 ]", "uint256[ ]", "uint256[]x", "uint256[][", "uint256[1][2][3][]",
	"uint256[0x10]", "uint256[1_0]", "uint65544", "int65792", "uint4294967304", "uint18446744073709551624", "bytes65537", "bytes65568", "bytes4294967297", "fixed128x65554", "ufixed65664x18", "fixed4294967424x18",
	"uint256[4294967297]", "uint256[18446744073709551617]", "", "[", "[]", "256", "x", "unknown", "ui", "uinté8", "uint８", "uint²", "tüple", "uint256[١]", "\x00", "uint256\n"}

// validateEverywhere: ABI.Validate / Entry.Validate must give the parser's verdict wherever the parameter sits —
// in the inputs or the outputs of an entry of any type (also an omitted type). Returns "" when they all agree.
func validateEverywhere(pj any, wantOK bool) string {
	for _, typ := range []abi.EntryType{abi.Function, abi.Event, abi.Error, abi.Constructor, ""} {
		for _, slot := range []string{"inputs", "outputs"} {
			e := &abi.Entry{Type: typ, Name: "f"}
			if slot == "inputs" {
				e.Inputs = abi.ParameterArray{paramFromJSON(pj)}
			} else {
				e.Outputs = abi.ParameterArray{paramFromJSON(pj)}
			}
			if (abi.ABI{e}.Validate() == nil) != wantOK {
				return "validate-disagrees:ABI.Validate:" + string(typ) + ":" + slot
			}
			e2 := &abi.Entry{Type: typ, Name: "f"}
			if slot == "inputs" {
				e2.Inputs = abi.ParameterArray{paramFromJSON(pj)}
			} else {
				e2.Outputs = abi.ParameterArray{paramFromJSON(pj)}
			}
			if (e2.Validate() == nil) != wantOK {
				return "validate-disagrees:Entry.Validate:" + string(typ) + ":" + slot
			}
		}
	}
	return ""
}

func init() {
	register(&Suite{
		Prop:     "C13",
		Parallel: true,
		Gen: func(c *Ctx) {
			r := c.R
			for _, t := range explicitTypes {
				c.Add(map[string]any{"op": "abi.validate", "param": map[string]any{"name": "a", "type": t}}, "explicit")
				c.Add(map[string]any{"op": "abi.validate", "param": map[string]any{"name": "a", "type": t, "components": []any{map[string]any{"name": "x", "type": "uint8"}}}}, "explicit.withcomps")
			}
			// every width / byte length / precision
			for m := 0; m <= 300; m++ {
				c.Add(map[string]any{"op": "abi.validate", "param": map[string]any{"name": "a", "type": fmt.Sprintf("uint%d", m)}}, "sweep.uint")
				c.Add(map[string]any{"op": "abi.validate", "param": map[string]any{"name": "a", "type": fmt.Sprintf("int%d", m)}}, "sweep.int")
				if m <= 40 {
					c.Add(map[string]any{"op": "abi.validate", "param": map[string]any{"name": "a", "type": fmt.Sprintf("bytes%d", m)}}, "sweep.bytes")
				}
				if m <= 90 {
					c.Add(map[string]any{"op": "abi.validate", "param": map[string]any{"name": "a", "type": fmt.Sprintf("fixed128x%d", m)}}, "sweep.fixedN")
					c.Add(map[string]any{"op": "abi.validate", "param": map[string]any{"name": "a", "type": fmt.Sprintf("ufixed%dx18", m*3)}}, "sweep.fixedM")
				}
			}
			n := 600
			if c.Thorough() {
				n = 20000
			}
			var seeds []map[string]any
			for i := 0; i < n; i++ {
				p := genValidParam(r, 3)
				seeds = append(seeds, p)
				c.Add(map[string]any{"op": "abi.validate", "param": p}, "grammar")
			}
			// single-edit mutations of valid type strings
			for i := 0; i < n*4; i++ {
				base := seeds[r.Intn(len(seeds))]
				p := map[string]any{}
				for k, v := range base {
					p[k] = v
				}
				t := []rune(p["type"].(string))
				pos := r.Intn(len(t) + 1)
				ch := []rune(typeAlphabet)[r.Intn(len([]rune(typeAlphabet)))]
				if r.Intn(30) == 0 {
					ch = Pick(r, []rune{'é', '８', '\u0000', '²', '\n', '\t'})
				}
				tag := ""
				switch r.Intn(3) {
				case 0:
					t = append(t[:pos], append([]rune{ch}, t[pos:]...)...)
					tag = "mut.insert"
				case 1:
					if len(t) > 0 {
						if pos >= len(t) {
							pos = len(t) - 1
						}
						t = append(t[:pos], t[pos+1:]...)
					}
					tag = "mut.delete"
				case 2:
					if len(t) > 0 {
						if pos >= len(t) {
							pos = len(t) - 1
						}
						t[pos] = ch
					}
					tag = "mut.replace"
				}
				p["type"] = string(t)
				c.Add(map[string]any{"op": "abi.validate", "param": p}, tag)
			}
			// histories: a definition is validated, one type string somewhere in its tree is changed in place, and it is
			// validated again — the second verdict must be the verdict on the definition as it now stands
			nh := n / 3
			for i := 0; i < nh; i++ {
				before := genValidParam(r, 3)
				if r.Intn(3) > 0 {
					comps := []any{}
					for k := 1 + r.Intn(3); k > 0; k-- {
						comps = append(comps, genValidParam(r, 2))
					}
					before = map[string]any{"name": "top", "type": "tuple" + Pick(r, arraySuffixes), "components": comps}
				}
				// path to a node
				var pathIdx []any
				node := before
				for {
					cs, _ := node["components"].([]any)
					if len(cs) == 0 || !strings.HasPrefix(node["type"].(string), "tuple") || r.Intn(3) == 0 {
						break
					}
					k := r.Intn(len(cs))
					pathIdx = append(pathIdx, k)
					node = cs[k].(map[string]any)
				}
				newType := Pick(r, []string{Pick(r, elemSeeds) + Pick(r, arraySuffixes), Pick(r, elemSeeds) + Pick(r, arraySuffixes), Pick(r, explicitTypes), "uint257", "lobster", "bytes32["})
				if strings.HasPrefix(node["type"].(string), "tuple") && r.Bool() {
					newType = "tuple" + Pick(r, arraySuffixes)
				}
				// the definition as it stands after the change (deep copy through JSON)
				var after map[string]any
				bb, _ := json.Marshal(before)
				_ = json.Unmarshal(bb, &after)
				an := after
				for _, k := range pathIdx {
					an = an["components"].([]any)[k.(int)].(map[string]any)
				}
				an["type"] = newType
				if pathIdx == nil {
					pathIdx = []any{}
				}
				c.Add(map[string]any{"op": "abi.validate", "param": after, "history": map[string]any{"before": before, "path": pathIdx, "newType": newType}}, "history.revalidate")
			}
			// arbitrary strings over the alphabet up to length 24, and arbitrary unicode
			for i := 0; i < n*2; i++ {
				l := 1 + r.Intn(24)
				var sb strings.Builder
				al := []rune(typeAlphabet)
				for k := 0; k < l; k++ {
					if r.Intn(40) == 0 {
						sb.WriteRune(rune(0x80 + r.Intn(0x3000)))
					} else {
						sb.WriteRune(al[r.Intn(len(al))])
					}
				}
				c.Add(map[string]any{"op": "abi.validate", "param": map[string]any{"name": "a", "type": sb.String()}}, "random")
			}
		},
		Impl: func(req map[string]any) any {
			if h, has := req["history"].(map[string]any); has {
				p := paramFromJSON(h["before"])
				a := abi.ABI{&abi.Entry{Type: abi.Function, Name: "f", Inputs: abi.ParameterArray{p}}}
				_ = a.Validate()
				_, _ = p.TypeComponentTreeCtx(context.Background())
				node := p
				for _, k := range h["path"].([]any) {
					idx := 0
					switch t := k.(type) {
					case int:
						idx = t
					case json.Number:
						n, _ := t.Int64()
						idx = int(n)
					case float64:
						idx = int(t)
					}
					node = node.Components[idx]
				}
				node.Type = str(h, "newType")
				if verr := a.Validate(); verr != nil {
					return "err"
				}
				tc, err := p.TypeComponentTreeCtx(context.Background())
				if err != nil {
					return "validate-disagrees"
				}
				return ok(tc.String())
			}
			p := paramFromJSON(req["param"])
			tc, err := p.TypeComponentTreeCtx(context.Background())
			if err != nil {
				if d := validateEverywhere(req["param"], false); d != "" {
					return d
				}
				return "err"
			}
			sig := tc.String()
			// via the ABI-level Validate entry point as well: every entry type, as an input and as an output
			if d := validateEverywhere(req["param"], true); d != "" {
				return d
			}
			return ok(sig)
		},
		Judge: func(c *Ctx, req map[string]any, impl any, orc map[string]any) []Finding {
			var fs []Finding
			if impl == "panic" {
				return []Finding{{Kind: "violation", Region: "abi.validate.panic", Detail: "type validation panicked"}}
			}
			if !same(impl, orc["model"]) {
				fs = append(fs, Finding{Kind: "mismatch", Region: "abi.validate", Detail: "type parsing / rendering differs from model"})
			}
			spec, valid := orc["spec"].(string)
			m, accepted := impl.(map[string]any)
			if accepted != valid {
				d := "valid type string rejected"
				if accepted {
					d = "type string outside the grammar accepted"
				}
				fs = append(fs, Finding{Kind: "violation", Region: "abi.validate.iff", Detail: d})
			}
			if accepted && valid && m["ok"] != spec {
				fs = append(fs, Finding{Kind: "violation", Region: "abi.validate.canonical", Detail: "rendered signature is not the canonical spelling"})
			}
			if accepted && same(impl, orc["model"]) && !same(orc["reparse"], impl) {
				fs = append(fs, Finding{Kind: "violation", Region: "abi.validate.idempotent", Detail: "re-parsing the canonical spelling does not give the same type"})
			}
			return fs
		},
	})
}
