//go:build verif

package main

import (
	"context"
	"encoding/json"
	"fmt"
	"math/big"
	"sort"
	"strings"

	"github.com/hyperledger/firefly-signer/pkg/abi"
	"github.com/hyperledger/firefly-signer/pkg/eip712"
	"github.com/hyperledger/firefly-signer/pkg/ethsigner"
	"github.com/hyperledger/firefly-signer/pkg/secp256k1"
)

// ---- ordered JSON writer (key order is part of what is tested) ----
type okv struct {
	K string
	V any
}
type oobj []okv

func writeJSON(sb *strings.Builder, v any) {
	switch t := v.(type) {
	case oobj:
		sb.WriteByte('{')
		for i, kv := range t {
			if i > 0 {
				sb.WriteByte(',')
			}
			kb, _ := json.Marshal(kv.K)
			sb.Write(kb)
			sb.WriteByte(':')
			writeJSON(sb, kv.V)
		}
		sb.WriteByte('}')
	case []any:
		sb.WriteByte('[')
		for i, c := range t {
			if i > 0 {
				sb.WriteByte(',')
			}
			writeJSON(sb, c)
		}
		sb.WriteByte(']')
	case json.Number:
		sb.WriteString(t.String())
	default:
		b, _ := json.Marshal(t)
		sb.Write(b)
	}
}

func shuffleObj(r *Rng, o oobj) oobj {
	out := append(oobj{}, o...)
	for i := len(out) - 1; i > 0; i-- {
		j := r.Intn(i + 1)
		out[i], out[j] = out[j], out[i]
	}
	return out
}

// ---- type graphs ----
type e712Member struct{ Name, Type string }
type e712Types map[string][]e712Member

var structNames = []string{"Mail", "Person", "Group", "Asset", "Order", "Zeta", "alpha", "Ünï"}

func genAtomic(r *Rng) string {
	switch r.Intn(8) {
	case 0, 1:
		return fmt.Sprintf("uint%d", 8*(1+r.Intn(32)))
	case 2:
		return fmt.Sprintf("int%d", 8*(1+r.Intn(32)))
	case 3:
		return "bool"
	case 4:
		return "address"
	case 5:
		return fmt.Sprintf("bytes%d", 1+r.Intn(32))
	case 6:
		return "bytes"
	default:
		return "string"
	}
}

func genTypeGraph(r *Rng) (e712Types, string) {
	n := 1 + r.Intn(8)
	names := append([]string{}, structNames[:n]...)
	ts := e712Types{}
	for _, nm := range names {
		k := 1 + r.Intn(5)
		if r.Intn(10) == 0 {
			k = 0
		}
		var ms []e712Member
		for i := 0; i < k; i++ {
			var t string
			if r.Intn(3) == 0 {
				t = Pick(r, names) // struct reference: shared, mutual or self
			} else {
				t = genAtomic(r)
			}
			for d := r.Intn(4); d > 0 && r.Intn(2) == 0; d-- {
				if r.Bool() {
					t += "[]"
				} else {
					t += fmt.Sprintf("[%d]", 1+r.Intn(3))
				}
			}
			ms = append(ms, e712Member{Name: fmt.Sprintf("f%d", i), Type: t})
		}
		ts[nm] = ms
	}
	return ts, names[0]
}

var domainFields = []e712Member{{"name", "string"}, {"version", "string"}, {"chainId", "uint256"}, {"verifyingContract", "address"}, {"salt", "bytes32"}}

// abstract value of a type name; also its concrete JSON rendering (style-dependent)
func genE712Val(r *Rng, ts e712Types, t string, depth int) (abs any, conc any) {
	if strings.HasSuffix(t, "]") {
		open := strings.LastIndex(t, "[")
		inner := t[:open]
		dim := t[open+1 : len(t)-1]
		n := r.Intn(3)
		if dim != "" {
			fmt.Sscan(dim, &n)
		}
		if depth <= 0 && dim == "" {
			n = 0
		}
		aa, cc := []any{}, []any{}
		for i := 0; i < n; i++ {
			a, c := genE712Val(r, ts, inner, depth-1)
			if c == "omit" {
				c = nil // an array element cannot be omitted, only be null
			}
			aa = append(aa, a)
			cc = append(cc, c)
		}
		return aa, cc
	}
	if ms, isStruct := ts[t]; isStruct {
		if depth <= 0 || r.Intn(6) == 0 {
			if r.Bool() {
				return nil, nil // explicit null
			}
			return nil, "omit"
		}
		ao := map[string]any{}
		co := oobj{}
		for _, m := range ms {
			a, c := genE712Val(r, ts, m.Type, depth-1)
			ao[m.Name] = a
			if c != "omit" {
				co = append(co, okv{m.Name, c})
			}
		}
		return map[string]any{"st": ao}, shuffleObj(r, co)
	}
	switch {
	case strings.HasPrefix(t, "uint"), strings.HasPrefix(t, "int"):
		var m int
		kind := "uint"
		if strings.HasPrefix(t, "int") {
			kind = "int"
			fmt.Sscan(t[3:], &m)
		} else {
			fmt.Sscan(t[4:], &m)
		}
		lo, hi := intBounds(&absTy{Kind: kind, M: m})
		z := genIntIn(r, lo, hi)
		if r.Intn(5) == 0 {
			z = Pick(r, []*big.Int{big.NewInt(0), new(big.Int).Add(pow2(53), big.NewInt(1)), pow2(63), new(big.Int).Add(pow2(64), big.NewInt(1)), new(big.Int).Sub(pow2(53), big.NewInt(1))})
			if z.Cmp(hi) > 0 {
				z = new(big.Int).Set(hi)
			}
		}
		var c any
		switch r.Intn(4) {
		case 0:
			c = json.Number(z.String())
		case 1:
			c = z.String()
		case 2:
			if z.Sign() >= 0 {
				c = "0x" + z.Text(16)
			} else {
				c = "-0x" + new(big.Int).Abs(z).Text(16)
			}
		default:
			c = json.Number(z.String())
		}
		return map[string]any{"i": z.String()}, c
	case t == "bool":
		b := r.Bool()
		i := "0"
		if b {
			i = "1"
		}
		return map[string]any{"i": i}, b
	case t == "address":
		b := r.Bytes(20)
		return map[string]any{"i": new(big.Int).SetBytes(b).String()}, "0x" + hx(b)
	case t == "bytes":
		b := r.Bytes(r.Intn(70))
		return map[string]any{"db": hx(b)}, "0x" + hx(b)
	case t == "string":
		s := utf8String(r, r.Intn(40))
		return map[string]any{"s": hx([]byte(s))}, s
	case strings.HasPrefix(t, "bytes"):
		var m int
		fmt.Sscan(t[5:], &m)
		b := r.Bytes(m)
		return map[string]any{"fb": hx(b)}, "0x" + hx(b)
	}
	return nil, nil
}

func typesToOrdered(r *Rng, ts e712Types) oobj {
	names := make([]string, 0, len(ts))
	for n := range ts {
		names = append(names, n)
	}
	sort.Strings(names)
	o := oobj{}
	for _, n := range names {
		ms := []any{}
		for _, m := range ts[n] {
			if r.Bool() {
				ms = append(ms, oobj{{"name", m.Name}, {"type", m.Type}})
			} else {
				ms = append(ms, oobj{{"type", m.Type}, {"name", m.Name}})
			}
		}
		o = append(o, okv{n, ms})
	}
	return shuffleObj(r, o)
}

func typesPlain(ts e712Types) map[string]any {
	out := map[string]any{}
	for n, ms := range ts {
		l := []any{}
		for _, m := range ms {
			l = append(l, map[string]any{"name": m.Name, "type": m.Type})
		}
		out[n] = l
	}
	return out
}

// modelDocFromTypedData describes the decoded TypedData for the Lean model
func modelDocFromTypedData(td *eip712.TypedData) map[string]any {
	m := map[string]any{"primaryType": td.PrimaryType}
	if td.Types != nil {
		tsj := map[string]any{}
		for n, t := range td.Types {
			if t == nil {
				tsj[n] = nil
				continue
			}
			ms := []any{}
			for _, tm := range t {
				if tm == nil {
					ms = append(ms, nil)
				} else {
					ms = append(ms, map[string]any{"name": tm.Name, "type": tm.Type})
				}
			}
			tsj[n] = ms
		}
		m["types"] = tsj
	}
	if td.Domain != nil {
		m["domain"] = extFromGo(map[string]any(td.Domain))
	}
	if td.Message != nil {
		m["message"] = extFromGo(map[string]any(td.Message))
	}
	return m
}

func addE712Case(c *Ctx, text string, extra map[string]any, tags ...string) {
	var td eip712.TypedData
	req := map[string]any{"op": "eip712.doc", "text": text}
	for k, v := range extra {
		req[k] = v
	}
	if err := json.Unmarshal([]byte(text), &td); err != nil {
		req["unmarshalErr"] = true
	} else {
		for k, v := range modelDocFromTypedData(&td) {
			req[k] = v
		}
	}
	c.Add(req, tags...)
}

func e712Impl(req map[string]any) any {
	var td eip712.TypedData
	if err := json.Unmarshal([]byte(str(req, "text")), &td); err != nil {
		return "err"
	}
	ctx := context.Background()
	h, err := eip712.EncodeTypedDataV4(ctx, &td)
	if gf, has := req["goFloat"].(string); has {
		// the same integer handed over as a Go float64 (a document assembled from plainly decoded JSON): same
		// digest as the decimal-string spelling in the text, or rejected exactly when that one is
		z, _ := new(big.Int).SetString(gf, 10)
		f, _ := new(big.Float).SetInt(z).Float64()
		var td3 eip712.TypedData
		_ = json.Unmarshal([]byte(str(req, "text")), &td3)
		td3.Message = map[string]interface{}{"v": f}
		h3, err3 := eip712.EncodeTypedDataV4(ctx, &td3)
		if (err == nil) != (err3 == nil) || (err == nil && hx(h) != hx(h3)) {
			return map[string]any{"goFloatDiffers": true, "text": fmt.Sprintf("err=%v digest=%s", err != nil, hx(h)), "float": fmt.Sprintf("err=%v digest=%s", err3 != nil, hx(h3))}
		}
	}
	if err != nil {
		return "err"
	}
	out := map[string]any{"digest": hx(h)}
	// the public HashStruct entry point must agree with what EncodeTypedDataV4 hashed: digest = keccak(0x1901 ‖
	// HashStruct(EIP712Domain, domain) ‖ HashStruct(primaryType, message)) (EncodeTypedDataV4 has filled in the
	// default domain type / empty domain on td by now)
	{
		dh, derr := eip712.HashStruct(ctx, "EIP712Domain", td.Domain, td.Types)
		pre := append([]byte{0x19, 0x01}, dh...)
		var serr2 error
		if td.PrimaryType != "EIP712Domain" {
			var sh []byte
			sh, serr2 = eip712.HashStruct(ctx, td.PrimaryType, td.Message, td.Types)
			pre = append(pre, sh...)
		}
		if derr != nil || serr2 != nil || hx(keccak(pre)) != hx(h) {
			out["hashStructAgrees"] = false
		}
	}
	// signing: 65 byte R‖S‖V, V in {27,28}, verifies for the digest against the signer without re-hashing
	var td2 eip712.TypedData
	_ = json.Unmarshal([]byte(str(req, "text")), &td2)
	kp := secp256k1.KeyPairFromBytes(unhx("00000000000000000000000000000000000000000000000000000000000000a7"))
	res, serr := ethsigner.SignTypedDataV4(ctx, kp, &td2)
	if serr != nil {
		out["sign"] = "err"
	} else {
		sig, derr := secp256k1.DecodeCompactRSV(ctx, res.SignatureRSV)
		okSig := derr == nil && len(res.SignatureRSV) == 65 && hx(res.Hash) == hx(h) && (res.SignatureRSV[64] == 27 || res.SignatureRSV[64] == 28) &&
			res.V.BigInt().Int64() == int64(res.SignatureRSV[64]) && hx(res.R) == hx(res.SignatureRSV[0:32]) && hx(res.S) == hx(res.SignatureRSV[32:64])
		if okSig {
			a, rerr := sig.RecoverDirect(h, 0)
			okSig = rerr == nil && *a == kp.Address
		}
		out["sign"] = okSig
	}
	return ok(out)
}

func e712Judge(prop string) func(c *Ctx, req map[string]any, impl any, orc map[string]any) []Finding {
	return func(c *Ctx, req map[string]any, impl any, orc map[string]any) []Finding {
		var fs []Finding
		if impl == "panic" {
			return []Finding{{Kind: "violation", Region: "eip712.panic", Detail: "hashing / signing a typed-data document panicked"}}
		}
		if m, isMap := impl.(map[string]any); isMap && m["goFloatDiffers"] == true {
			return []Finding{{Kind: "violation", Region: "eip712.go-float64", Detail: fmt.Sprintf("an integer member given as a Go float64 is treated differently from the same integer given as a decimal string: string form %v, float64 form %v", m["text"], m["float"])}}
		}
		var implDigest any = "err"
		if m, isok := impl.(map[string]any); isok {
			o := m["ok"].(map[string]any)
			implDigest = ok(o["digest"])
			if o["hashStructAgrees"] == false {
				fs = append(fs, Finding{Kind: "violation", Region: "eip712.hashstruct-entrypoint", Detail: "HashStruct (public entry point) on the document's domain / message does not give the hashes EncodeTypedDataV4 used: the same member values are read differently through it"})
			}
			if o["sign"] != true {
				fs = append(fs, Finding{Kind: "violation", Region: "eip712.sign", Detail: "signature is not 65-byte R‖S‖V with V∈{27,28} verifying for the digest against the signer"})
			}
		}
		if d, has := req["abiDerived"]; has {
			fs = append(fs, Finding{Kind: "violation", Region: "eip712.abi-derived-types", Detail: "the type set derived from the ABI struct definition is not the hand-written equivalent: " + fmt.Sprint(d)})
		}
		if req["unmarshalErr"] == true {
			if impl != "err" {
				fs = append(fs, Finding{Kind: "mismatch", Region: "eip712.unmarshal", Detail: "harness and implementation disagree about JSON decoding"})
			}
			return fs
		}
		if !same(implDigest, orc["model"]) {
			fs = append(fs, Finding{Kind: "mismatch", Region: "eip712.digest", Detail: "digest / acceptance differs from model"})
		}
		switch req["expect"] {
		case "digest":
			if !same(implDigest, ok(orc["spec"])) {
				fs = append(fs, Finding{Kind: "violation", Region: "eip712.digest.spec", Detail: "digest is not the EIP-712 specification digest of the document"})
			}
		case "reject":
			if implDigest != "err" {
				fs = append(fs, Finding{Kind: "violation", Region: "eip712.accepts-inexact", Detail: "numeric input that is out of range / not exactly the integer was hashed"})
			}
		}
		return fs
	}
}

func buildDoc(r *Rng, ts e712Types, primary string, domTypes []e712Member, haveDomainType bool, domC, msgC any, extraTypes, extraFields bool) string {
	all := e712Types{}
	for k, v := range ts {
		all[k] = v
	}
	if haveDomainType {
		all["EIP712Domain"] = domTypes
	}
	if extraTypes {
		all["Unreferenced"+fmt.Sprint(r.Intn(99))] = []e712Member{{"x", "uint8"}, {"y", Pick(r, structNames)}}
		all["Aaa"] = []e712Member{{"q", "string"}}
	}
	if extraFields {
		if mo, isObj := msgC.(oobj); isObj {
			msgC = shuffleObj(r, append(append(oobj{}, mo...), okv{"extraField", "ignored"}, okv{"zzz", []any{json.Number("1")}}))
		}
	}
	doc := oobj{{"types", typesToOrdered(r, all)}, {"primaryType", primary}}
	if domC != "omit" {
		doc = append(doc, okv{"domain", domC})
	}
	if msgC != "omit" {
		doc = append(doc, okv{"message", msgC})
	}
	var sb strings.Builder
	writeJSON(&sb, shuffleObj(r, doc))
	return sb.String()
}

// ---- the ABI struct definition equivalent to a (non-recursive) type graph ----

// genAcyclicTypeGraph: as genTypeGraph, but a struct only refers to structs later in the list (ABI tuples are trees),
// and array dimensions differ from each other often (T[2][], T[][3], T[2][3]).
func genAcyclicTypeGraph(r *Rng) (e712Types, string) {
	n := 1 + r.Intn(5)
	names := append([]string{}, structNames[:n]...)
	ts := e712Types{}
	for idx, nm := range names {
		k := 1 + r.Intn(4)
		var ms []e712Member
		for i := 0; i < k; i++ {
			var t string
			if idx+1 < n && r.Intn(3) == 0 {
				t = names[idx+1+r.Intn(n-idx-1)]
			} else {
				t = genAtomic(r)
			}
			for d := Pick(r, []int{0, 0, 1, 2, 2, 3}); d > 0; d-- {
				if r.Bool() {
					t += "[]"
				} else {
					t += fmt.Sprintf("[%d]", 1+r.Intn(3))
				}
			}
			ms = append(ms, e712Member{Name: fmt.Sprintf("f%d", i), Type: t})
		}
		ts[nm] = ms
	}
	return ts, names[0]
}

// abiParamFor: the ABI JSON parameter (tuple with components, Solidity-style internalType) for a member type
func abiParamFor(r *Rng, ts e712Types, name, typ string) map[string]any {
	base := typ
	suffix := ""
	if i := strings.Index(typ, "["); i >= 0 {
		base, suffix = typ[:i], typ[i:]
	}
	ms, isStruct := ts[base]
	if !isStruct {
		return map[string]any{"name": name, "type": typ, "internalType": typ}
	}
	var comps []any
	for _, m := range ms {
		comps = append(comps, abiParamFor(r, ts, m.Name, m.Type))
	}
	if comps == nil {
		comps = []any{}
	}
	return map[string]any{"name": name, "type": "tuple" + suffix, "internalType": "struct " + Pick(r, []string{"", "", "MyContract.", "a.b."}) + base + suffix, "components": comps}
}

// referenced: the struct types reachable from `primary` (what the ABI-derived type set contains)
func referencedTypes(ts e712Types, primary string) e712Types {
	out := e712Types{}
	var walk func(t string)
	walk = func(t string) {
		if i := strings.Index(t, "["); i >= 0 {
			t = t[:i]
		}
		ms, isStruct := ts[t]
		if !isStruct {
			return
		}
		if _, seen := out[t]; seen {
			return
		}
		out[t] = ms
		for _, m := range ms {
			walk(m.Type)
		}
	}
	walk(primary)
	return out
}

func init() {
	register(&Suite{
		Prop:     "C04",
		Parallel: true,
		Gen: func(c *Ctx) {
			r := c.R
			n := 400
			if c.Thorough() {
				n = 12000
			}
			for i := 0; i < n; i++ {
				ts, primary := genTypeGraph(r)
				// domain: every subset of the standard fields, or no domain type at all
				mask := r.Intn(32)
				haveDom := r.Intn(6) != 0
				var dts []e712Member
				domAbs := map[string]any{}
				domC := oobj{}
				if haveDom {
					for k, f := range domainFields {
						if mask>>k&1 == 1 {
							dts = append(dts, f)
							a, cc := genE712Val(r, ts, f.Type, 1)
							domAbs[f.Name] = a
							domC = append(domC, okv{f.Name, cc})
						}
					}
				}
				msgAbs, msgC := genE712Val(r, ts, primary, 4)
				if msgC == nil || msgC == "omit" {
					msgAbs, msgC = genE712Val(r, ts, primary, 4)
				}
				if r.Intn(12) == 0 && haveDom {
					primary = "EIP712Domain" // domain-only document
					msgC = "omit"
				}
				var domCAny any = shuffleObj(r, domC)
				if !haveDom && r.Bool() {
					domCAny = "omit"
				}
				allAbs := e712Types{}
				for k, v := range ts {
					allAbs[k] = v
				}
				if haveDom {
					allAbs["EIP712Domain"] = dts
				}
				base := map[string]any{"hasAbstract": true, "expect": "digest", "primaryType": primary, "domainVal": map[string]any{"st": domAbs}, "messageVal": msgAbs}
				// spec-side types: the abstract graph (without unreferenced extras)
				specTypes := typesPlain(allAbs)
				// a member key spelled in another letter case is a different key: the member is absent and the field is
				// an extra one (judged against the model, which looks names up exactly)
				if mo, isObj := msgC.(oobj); isObj && len(mo) > 0 && i%3 == 0 {
					alt := append(oobj{}, mo...)
					k := r.Intn(len(alt))
					up := strings.ToUpper(alt[k].K)
					if up == alt[k].K {
						up = strings.ToLower(alt[k].K)
					}
					if up != alt[k].K {
						alt[k] = okv{up, alt[k].V}
						if r.Bool() {
							alt = append(alt, okv{strings.Title(mo[k].K), mo[k].V})
						}
						text := buildDoc(r, ts, primary, dts, haveDom, domCAny, shuffleObj(r, alt), false, false)
						addE712Case(c, text, map[string]any{}, "doc.case-variant-key")
					}
				}
				// three metamorphic renderings of the same document: plain, shuffled+extra types, extra message fields
				for variant := 0; variant < 3; variant++ {
					text := buildDoc(r, ts, primary, dts, haveDom, domCAny, msgC, variant == 1, variant == 2)
					extra := map[string]any{}
					for k, v := range base {
						extra[k] = v
					}
					extra["specTypes"] = specTypes
					addE712Case(c, text, extra, fmt.Sprintf("doc.variant%d", variant))
				}
			}
			// the type set derived from a Solidity ABI struct definition must hash identically to the hand-written
			// equivalent: derive the types with ABItoTypedDataV4, hash a message under them, and judge the digest
			// against the specification digest of the hand-written document
			na := 60
			if c.Thorough() {
				na = 2500
			}
			for i := 0; i < na; i++ {
				ts, primary := genAcyclicTypeGraph(r)
				pj := abiParamFor(r, ts, "msg", primary)
				pb, _ := json.Marshal(pj)
				var param abi.Parameter
				_ = json.Unmarshal(pb, &param)
				ctx := context.Background()
				extra := map[string]any{"hasAbstract": true, "expect": "digest", "primaryType": primary, "abiParam": pj}
				want := referencedTypes(ts, primary)
				derivedTypes := map[string]any{}
				tc, terr := param.TypeComponentTreeCtx(ctx)
				if terr != nil {
					continue
				}
				pt, typeSet, aerr := eip712.ABItoTypedDataV4(ctx, tc)
				if aerr != nil {
					extra["abiDerived"] = "err"
				} else {
					for tn, members := range typeSet {
						l := []any{}
						for _, m := range members {
							l = append(l, map[string]any{"name": m.Name, "type": m.Type})
						}
						derivedTypes[tn] = l
					}
					b, _ := json.Marshal(derivedTypes)
					wb, _ := json.Marshal(typesPlain(want))
					var wantPlain map[string]any
					_ = json.Unmarshal(wb, &wantPlain)
					if pt != primary || !same(derivedTypes, wantPlain) {
						extra["abiDerived"] = "differs: primaryType=" + pt + " types=" + trunc(string(b), 300) + " hand-written=" + trunc(string(wb), 300)
					}
				}
				msgAbs, msgC := genE712Val(r, ts, primary, 4)
				if msgC == nil || msgC == "omit" {
					continue
				}
				extra["domainVal"] = map[string]any{"st": map[string]any{}}
				extra["messageVal"] = msgAbs
				specAll := e712Types{}
				for k, v := range want {
					specAll[k] = v
				}
				specAll["EIP712Domain"] = nil
				extra["specTypes"] = typesPlain(specAll)
				// the document carries the DERIVED types (or, if derivation failed, the hand-written ones — the
				// failure itself is reported through abiDerived)
				docTypes := any(derivedTypes)
				if aerr != nil {
					docTypes = typesPlain(want)
				}
				dt := map[string]any{}
				for k, v := range docTypes.(map[string]any) {
					dt[k] = v
				}
				dt["EIP712Domain"] = []any{}
				var sb strings.Builder
				writeJSON(&sb, oobj{{"types", dt}, {"primaryType", primary}, {"domain", oobj{}}, {"message", msgC}})
				addE712Case(c, sb.String(), extra, "abi-derived")
			}
		},
		Impl:  e712Impl,
		Judge: e712Judge("C04"),
	})

	register(&Suite{
		Prop:     "C14",
		Parallel: true,
		Gen: func(c *Ctx) {
			r := c.R
			// 1. integer members in each textual form, at the boundaries
			for _, tname := range []string{"uint256", "int256", "uint64", "int64", "uint8", "int8", "uint56", "int128"} {
				kind, m := "uint", 0
				if strings.HasPrefix(tname, "int") {
					kind = "int"
					fmt.Sscan(tname[3:], &m)
				} else {
					fmt.Sscan(tname[4:], &m)
				}
				lo, hi := intBounds(&absTy{Kind: kind, M: m})
				cands := []*big.Int{lo, hi, big.NewInt(0), big.NewInt(1), big.NewInt(-1), pow2(53), new(big.Int).Add(pow2(53), big.NewInt(1)), new(big.Int).Sub(pow2(53), big.NewInt(1)),
					pow2(63), new(big.Int).Sub(pow2(63), big.NewInt(1)), new(big.Int).Add(pow2(63), big.NewInt(1)), pow2(64), new(big.Int).Add(pow2(64), big.NewInt(1)),
					new(big.Int).Neg(new(big.Int).Add(pow2(53), big.NewInt(1))), new(big.Int).Add(hi, big.NewInt(1)), new(big.Int).Sub(lo, big.NewInt(1)), new(big.Int).Exp(big.NewInt(10), big.NewInt(19), nil)}
				ts := e712Types{"Msg": {{"v", tname}}}
				for _, z := range cands {
					inRange := z.Cmp(lo) >= 0 && z.Cmp(hi) <= 0
					forms := []any{json.Number(z.String()), z.String()}
					if z.Sign() >= 0 {
						forms = append(forms, "0x"+z.Text(16))
					}
					// exponent spelling of the same integer
					d := new(big.Int).Abs(z).String()
					if t := strings.TrimRight(d, "0"); t != "" && len(t) < len(d) {
						s := ""
						if z.Sign() < 0 {
							s = "-"
						}
						forms = append(forms, json.Number(fmt.Sprintf("%s%se%d", s, t, len(d)-len(t))))
					}
					for _, f := range forms {
						text := buildDoc(r, ts, "Msg", nil, false, "omit", oobj{{"v", f}}, false, false)
						extra := map[string]any{"hasAbstract": true, "primaryType": "Msg", "specTypes": typesPlain(ts), "domainVal": map[string]any{"st": map[string]any{}},
							"messageVal": map[string]any{"st": map[string]any{"v": map[string]any{"i": z.String()}}}}
						if inRange {
							extra["expect"] = "digest"
						} else {
							extra["expect"] = "reject"
						}
						addE712Case(c, text, extra, "intforms."+tname)
					}
					// non-integral neighbours are rejected
					for _, f := range []any{json.Number(z.String() + ".5"), z.String() + ".5", json.Number(z.String() + "e-1")} {
						if strings.HasSuffix(z.String(), "0") {
							continue
						}
						text := buildDoc(r, ts, "Msg", nil, false, "omit", oobj{{"v", f}}, false, false)
						addE712Case(c, text, map[string]any{"expect": "reject"}, "nonintegral")
					}
				}
			}
			// 1a. integers that a float64 holds exactly, handed over as Go float64 values
			for _, tname := range []string{"int64", "uint64", "int256", "uint256", "uint8", "int8"} {
				ts := e712Types{"Msg": {{"v", tname}}}
				for _, z := range []*big.Int{big.NewInt(0), big.NewInt(1), big.NewInt(-1), big.NewInt(127), big.NewInt(128), big.NewInt(255), big.NewInt(256), pow2(53), pow2(62), pow2(63), new(big.Int).Neg(pow2(63)),
					new(big.Int).Add(pow2(63), big.NewInt(2048)), new(big.Int).Sub(pow2(63), big.NewInt(1024)), pow2(64), new(big.Int).Neg(pow2(64)), pow2(200), pow2(255), new(big.Int).Neg(pow2(255)), pow2(256)} {
					text := buildDoc(r, ts, "Msg", nil, false, "omit", oobj{{"v", z.String()}}, false, false)
					addE712Case(c, text, map[string]any{"goFloat": z.String()}, "gofloat."+tname)
				}
			}
			// 1b. things a float parser takes that are no integers at all: infinities, not-a-number, exponents beyond any
			// width (as JSON numbers where JSON allows them, and as strings)
			for _, tname := range []string{"uint256", "int64", "uint8"} {
				ts := e712Types{"Msg": {{"v", tname}}}
				for _, f := range []any{"Inf", "inf", "+Inf", "-inf", "Infinity", "NaN", "nan", json.Number("1e999999999"), json.Number("1E+700000000"), "1e999999999", json.Number("1e-400"),
					json.Number("-1e999999999"), "0x", "0b", "1_000", "١٢٣", " 5", "5 ", "+5", "--5", "0x-5", "5e", "e5", ".5", "5."} {
					text := buildDoc(r, ts, "Msg", nil, false, "omit", oobj{{"v", f}}, false, false)
					addE712Case(c, text, map[string]any{}, "notanumber")
					text2 := buildDoc(r, e712Types{"Msg": {{"v", tname + "[]"}}}, "Msg", nil, false, "omit", oobj{{"v", []any{json.Number("1"), f}}}, false, false)
					addE712Case(c, text2, map[string]any{}, "notanumber.array")
				}
			}
			// 2. structural mutations of valid documents
			n := 150
			if c.Thorough() {
				n = 5000
			}
			junk := []string{"null", "true", "5", `"x"`, "[]", "{}", "[null]", `{"a":null}`, `[[]]`, "1e400", `""`}
			for i := 0; i < n; i++ {
				ts, primary := genTypeGraph(r)
				_, msgC := genE712Val(r, ts, primary, 3)
				dts := []e712Member{{"name", "string"}, {"chainId", "uint256"}}
				domC := oobj{{"name", "x"}, {"chainId", json.Number("5")}}
				text := buildDoc(r, ts, primary, dts, true, domC, msgC, false, false)
				addE712Case(c, text, map[string]any{}, "valid")
				for k := 0; k < 12; k++ {
					m := mutateJSONText(r, text, junk)
					addE712Case(c, m, map[string]any{}, "mut.struct")
				}
			}
			// 3. explicit corner documents
			for _, t := range []string{
				`{"types":{"A":[null]},"primaryType":"A","message":{}}`,
				`{"types":{"A":null},"primaryType":"A","message":{}}`,
				`{"types":null,"primaryType":"A"}`, `{}`, `null`, `[]`, `{"primaryType":""}`, `{"primaryType":"EIP712Domain"}`,
				`{"types":{"A":[{"name":"x","type":"B"}],"B":[{"name":"y","type":"A"}]},"primaryType":"A","message":{"x":{"y":{"x":null}}}}`,
				`{"types":{"A":[{"name":"x","type":"A[]"}]},"primaryType":"A","message":{"x":[{"x":[]},{"x":[{"x":[]}]}]}}`,
				`{"types":{"A":[{"name":"x","type":"Undefined"}]},"primaryType":"A","message":{"x":1}}`,
				`{"types":{"A":[{"name":"x","type":"uint256["}]},"primaryType":"A","message":{"x":[1]}}`,
				`{"types":{"A":[{"name":"x","type":"[]"}]},"primaryType":"A","message":{"x":[1]}}`,
				`{"types":{"A":[{"name":"x","type":"uint256[]x"}]},"primaryType":"A","message":{"x":[1]}}`,
				`{"types":{"A":[{"name":"x","type":"uint256[-1]"}]},"primaryType":"A","message":{"x":[]}}`,
				`{"types":{"A":[{"name":"x","type":"uint256[abc]"}]},"primaryType":"A","message":{"x":[]}}`,
				`{"types":{"A":[{"name":"x","type":"uint256[+1]"}]},"primaryType":"A","message":{"x":[7]}}`,
				`{"types":{"A":[{"name":"x","type":"uint256` + strings.Repeat("[", 50) + `"}]},"primaryType":"A","message":{"x":[]}}`,
				`{"types":{"A":[{"name":"x","type":"uint256` + strings.Repeat("[]", 30) + `"}]},"primaryType":"A","message":{"x":[]}}`,
				`{"types":{"A":[{"name":"x","type":"tuple"}]},"primaryType":"A","message":{"x":[]}}`,
				`{"types":{"A":[{"name":"x","type":"fixed128x18"}]},"primaryType":"A","message":{"x":"1.5"}}`,
				`{"types":{"A":[{"name":"x","type":"function"}]},"primaryType":"A","message":{"x":"0x00"}}`,
				`{"types":{"A":[{"name":"x","type":"uint256"}]},"primaryType":"A","message":"notamap"}`,
				`{"types":{"A":[{"name":"x","type":"uint256"}]},"primaryType":"A","message":{"x":{}}}`,
				`{"types":{"A":[{"name":"x","type":"A"}]},"primaryType":"A","message":{"x":5}}`,
				`{"types":{"A":[{"name":"x","type":"string"}]},"primaryType":"A","message":{"x":5}}`,
				`{"types":{"A":[{"name":"x","type":"bytes"}]},"primaryType":"A","message":{"x":"zz"}}`,
				`{"types":{"A":[{"Name":"x","TYPE":"uint8"}]},"primaryType":"A","message":{"x":"1"}}`,
				`{"types":{"A":[{"name":"x","type":"uint8"},{"name":"x","type":"uint8"}]},"primaryType":"A","message":{"x":"1"}}`,
				`{"types":{"A":[5]},"primaryType":"A","message":{}}`, `{"types":{"A":{}},"primaryType":"A"}`, `{"types":[],"primaryType":"A"}`,
				`{"types":{"EIP712Domain":null},"primaryType":"EIP712Domain"}`,
				`{"types":{"A":[{"name":"x","type":"bool"}]},"primaryType":"A","message":{"x":1}}`,
				`{"types":{"A":[{"name":"x","type":"address"}]},"primaryType":"A","message":{"x":"0x1234"}}`,
			} {
				addE712Case(c, t, map[string]any{}, "corner")
			}
		},
		Impl:  e712Impl,
		Judge: e712Judge("C14"),
	})
}

// mutateJSONText applies one structural mutation to a JSON document (parsed generically, re-serialised)
func mutateJSONText(r *Rng, text string, junk []string) string {
	var tree any
	d := json.NewDecoder(strings.NewReader(text))
	d.UseNumber()
	if d.Decode(&tree) != nil {
		return text
	}
	// collect paths
	type site struct {
		parent any
		key    any
	}
	var sites []site
	var walk func(v any)
	walk = func(v any) {
		switch t := v.(type) {
		case map[string]any:
			for k, c := range t {
				sites = append(sites, site{t, k})
				walk(c)
			}
		case []any:
			for i, c := range t {
				sites = append(sites, site{t, i})
				walk(c)
			}
		}
	}
	walk(tree)
	if len(sites) == 0 {
		return Pick(r, junk)
	}
	s := sites[r.Intn(len(sites))]
	var repl any
	_ = json.Unmarshal([]byte(Pick(r, junk)), &repl)
	switch p := s.parent.(type) {
	case map[string]any:
		k := s.key.(string)
		switch r.Intn(4) {
		case 0:
			delete(p, k)
		case 1:
			p[k] = repl
		case 2:
			p[k+"x"] = p[k]
			delete(p, k)
		default:
			if str, isStr := p[k].(string); isStr {
				p[k] = Pick(r, []string{str + "[", str + "[]", str + "[2]", "Undefined", str[:len(str)/2], "", str + "]", "uint257", str + "[-1]"})
			} else {
				p[k] = repl
			}
		}
	case []any:
		p[s.key.(int)] = repl
	}
	b, _ := json.Marshal(tree)
	return string(b)
}
