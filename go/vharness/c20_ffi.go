//go:build verif

package main

import (
	"context"
	"encoding/json"
	"fmt"
	"strings"

	"github.com/hyperledger/firefly-common/pkg/fftypes"
	"github.com/hyperledger/firefly-signer/pkg/abi"
	"github.com/hyperledger/firefly-signer/pkg/ffi2abi"
)

func ffiMetaOK(name, schema string) bool {
	defer func() { _ = recover() }()
	c := fftypes.NewFFISchemaCompiler()
	v := &ffi2abi.ParamValidator{}
	c.RegisterExtension(v.GetExtensionName(), v.GetMetaSchema(), v)
	if err := c.AddResource(name, strings.NewReader(schema)); err != nil {
		return false
	}
	if _, err := c.Compile(name); err != nil {
		return false
	}
	return true
}

// describeSchema: the decoded *ffi2abi.Schema for the model
func describeSchema(s *ffi2abi.Schema) any {
	if s == nil {
		return nil
	}
	m := map[string]any{"type": s.Type}
	if s.OneOf != nil {
		l := []any{}
		for _, t := range s.OneOf {
			l = append(l, map[string]any{"type": t.Type})
		}
		m["oneOf"] = l
	}
	if s.Details != nil {
		b, _ := json.Marshal(s.Details)
		var d map[string]any
		dd := json.NewDecoder(strings.NewReader(string(b)))
		dd.UseNumber()
		_ = dd.Decode(&d)
		m["details"] = d
	}
	if s.Properties != nil {
		p := map[string]any{}
		for k, v := range s.Properties {
			p[k] = describeSchema(v)
		}
		m["properties"] = p
	}
	if s.Items != nil {
		m["items"] = describeSchema(s.Items)
	}
	return m
}

func normParam(p *abi.Parameter) any {
	if p == nil {
		return nil
	}
	comps := []any{}
	for _, c := range p.Components {
		comps = append(comps, normParam(c))
	}
	return map[string]any{"name": p.Name, "type": p.Type, "indexed": p.Indexed, "internalType": p.InternalType, "components": comps}
}

func normParamJSON(v any) any {
	m, isMap := v.(map[string]any)
	if !isMap {
		return nil
	}
	comps := []any{}
	if cs, has := m["components"].([]any); has {
		for _, c := range cs {
			comps = append(comps, normParamJSON(c))
		}
	}
	idx, _ := m["indexed"].(bool)
	it, _ := m["internalType"].(string)
	return map[string]any{"name": m["name"], "type": m["type"], "indexed": idx, "internalType": it, "components": comps}
}

func ffiSchemaFor(t *absTy) string {
	e := &abi.Entry{Type: abi.Function, Name: "f", Inputs: paramArray(paramsJSON([]*absTy{t}))}
	a := abi.ABI{e}
	ffi, err := ffi2abi.ConvertABIToFFI(context.Background(), "ns", "n", "v", "d", &a)
	if err != nil || len(ffi.Methods) != 1 || len(ffi.Methods[0].Params) != 1 {
		return ""
	}
	return ffi.Methods[0].Params[0].Schema.String()
}

func addFfiToABI(c *Ctx, name, schema string, tag string) {
	req := map[string]any{"op": "ffi.toABI", "name": name, "schemaText": schema, "metaOK": ffiMetaOK(name, schema)}
	var s *ffi2abi.Schema
	if err := json.Unmarshal([]byte(schema), &s); err != nil {
		req["unmarshalErr"] = true
	} else {
		req["schema"] = describeSchema(s)
	}
	c.Add(req, tag)
}

func init() {
	register(&Suite{
		Prop:     "C20",
		Parallel: true,
		Gen: func(c *Ctx) {
			r := c.R
			n := 250
			if c.Thorough() {
				n = 6000
			}
			o := tyOpts{maxArr: 3}
			for i := 0; i < n; i++ {
				np := 1 + r.Intn(4)
				var ts []*absTy
				for k := 0; k < np; k++ {
					t := genTy(r, 1+r.Intn(4), o)
					if t.hasFixed() {
						t = &absTy{Kind: "uint", M: 256}
					}
					t.Name = fmt.Sprintf("arg%d", k)
					if r.Intn(4) == 0 {
						t.IntTyp = "struct Lib.S" + fmt.Sprint(k)
					}
					ts = append(ts, t)
				}
				// tuples nested in tuples and in arrays of any dimension, explicitly
				if i%5 == 0 {
					inner := &absTy{Kind: "tuple", Comps: []*absTy{{Kind: "uint", M: 256, Name: "a"}, {Kind: "tuple", Name: "b", Comps: []*absTy{{Kind: "string", Name: "x"}, {Kind: "darr", Name: "y", Child: &absTy{Kind: "bool"}}}}}}
					var t *absTy = inner
					for d := r.Intn(4); d > 0; d-- {
						if r.Bool() {
							t = &absTy{Kind: "darr", Child: t}
						} else {
							t = &absTy{Kind: "farr", Child: t, Len: 1 + r.Intn(3)}
						}
					}
					t.Name = "nested"
					ts = append(ts, t)
				}
				// a tuple (at any depth, under any array dimensions) in which exactly one member has no name
				if i%4 == 1 {
					k := 1 + r.Intn(3)
					tu := &absTy{Kind: "tuple"}
					for q := 0; q < k; q++ {
						m := genTy(r, 1, o)
						if m.hasFixed() {
							m = &absTy{Kind: "uint", M: 256}
						}
						m.Name = fmt.Sprintf("m%d", q)
						tu.Comps = append(tu.Comps, m)
					}
					tu.Comps[r.Intn(k)].Name = ""
					var t *absTy = tu
					for d := r.Intn(3); d > 0; d-- {
						if r.Bool() {
							t = &absTy{Kind: "darr", Child: t}
						} else {
							t = &absTy{Kind: "farr", Child: t, Len: 1 + r.Intn(3)}
						}
					}
					if r.Bool() {
						t = &absTy{Kind: "tuple", Comps: []*absTy{{Kind: "bool", Name: "flag"}, t}}
						t.Comps[1].Name = "inner"
					}
					t.Name = "oneUnnamed"
					ts = append(ts, t)
				}
				typ := Pick(r, []string{"function", "event", "error"})
				if typ == "event" {
					for _, t := range ts {
						t.Index = r.Intn(3) == 0
					}
				}
				e := entryJSON(typ, Pick(r, []string{"doIt", "Changed", "Bad"}), false, ts)
				c.Add(map[string]any{"op": "ffi.roundtrip", "entry": e}, "roundtrip."+typ)
				// schema mutations
				for _, t := range ts {
					sch := ffiSchemaFor(t)
					if sch == "" {
						continue
					}
					addFfiToABI(c, t.Name, sch, "schema.valid")
					for k := 0; k < 6; k++ {
						addFfiToABI(c, t.Name, mutateSchema(r, sch), "schema.mutated")
					}
				}
			}
			for _, s := range []string{`null`, `{}`, `[]`, `5`, `"x"`, `{"type":"array","details":{"type":"uint256[]"}}`, `{"type":"array","details":{"type":"uint256[]"},"items":null}`,
				`{"type":"integer","details":{"type":"uint256[]"}}`, `{"type":"object","details":{"type":"tuple"},"properties":{"a":null}}`,
				`{"type":"object","details":{"type":"tuple"},"properties":{"a":{"type":"string","details":{"type":"string","index":5}}}}`,
				`{"type":"object","details":{"type":"tuple"},"properties":{"a":{"type":"string","details":{"type":"string","index":-1}}}}`,
				`{"type":"object","details":{"type":"tuple"},"properties":{"a":{"type":"string","details":{"type":"string","index":0}},"b":{"type":"string","details":{"type":"string","index":0}}}}`,
				`{"type":"array","details":{"type":"tuple[]"},"items":{"type":"object","properties":{"a":{"type":"string","details":{"type":"string"}}}}}`,
				`{"type":"array","details":{"type":"tuple[][]"},"items":{"type":"array","items":{"type":"object","properties":{"a":{"type":"string","details":{"type":"string","index":0}}}}}}`,
				`{"oneOf":[],"details":{"type":"uint256"}}`, `{"oneOf":[{"type":"string"},{"type":"boolean"}],"details":{"type":"uint256"}}`, `{"type":"string","details":{"type":"notatype"}}`,
				`{"type":"object","details":{"type":"uint256"}}`, `{"type":"string","details":{"type":"tuple"}}`, `{"type":"string","details":{"type":"uint256","index":"x"}}`, `{"type":"string","details":null}`} {
				addFfiToABI(c, "p", s, "schema.corner")
			}
			// wide and deep schemas: objects with many members (each costs the model one unit of fuel), arrays of arrays,
			// objects nested in objects — the shapes a fixed amount of model fuel would not cover
			for _, w := range []int{30, 63, 64, 65, 100, 300} {
				var sb strings.Builder
				sb.WriteString(`{"type":"object","details":{"type":"tuple"},"properties":{`)
				for k := 0; k < w; k++ {
					if k > 0 {
						sb.WriteString(",")
					}
					idx := k
					if w == 100 && k == 99 {
						idx = 98 // one collision at the very end of a wide object
					}
					fmt.Fprintf(&sb, `"m%d":{"type":"string","details":{"type":"string","index":%d}}`, k, idx)
				}
				sb.WriteString("}}")
				addFfiToABI(c, "wide", sb.String(), "schema.wide")
			}
			for _, d := range []int{5, 20, 30, 63, 64, 65, 70} {
				inner := `{"type":"string","details":{"type":"string","index":0}}`
				obj := inner
				for k := 0; k < d; k++ {
					obj = `{"type":"object","details":{"type":"tuple","index":0},"properties":{"x":` + obj + `}}`
				}
				addFfiToABI(c, "deep", obj, "schema.deep")
				arr := `{"type":"object","properties":{"a":` + inner + `}}`
				for k := 0; k < d; k++ {
					arr = `{"type":"array","items":` + arr + `}`
				}
				arr = `{"type":"array","details":{"type":"tuple` + strings.Repeat("[]", d+1) + `"},"items":` + arr + `}`
				addFfiToABI(c, "deeparr", arr, "schema.deeparr")
			}
		},
		Impl: func(req map[string]any) any {
			ctx := context.Background()
			switch str(req, "op") {
			case "ffi.toABI":
				m := &fftypes.FFIMethod{Name: "m", Params: fftypes.FFIParams{{Name: str(req, "name"), Schema: fftypes.JSONAnyPtr(str(req, "schemaText"))}}}
				e, err := ffi2abi.ConvertFFIMethodToABI(ctx, m)
				if err != nil {
					return "err"
				}
				return ok(normParam(e.Inputs[0]))
			case "ffi.roundtrip":
				e := entryFromJSON(req["entry"])
				a := abi.ABI{e}
				ffi, err := ffi2abi.ConvertABIToFFI(ctx, "ns", "n", "v", "d", &a)
				if err != nil {
					return "err"
				}
				var back *abi.Entry
				switch e.Type {
				case abi.Event:
					back, err = ffi2abi.ConvertFFIEventDefinitionToABI(ctx, &ffi.Events[0].FFIEventDefinition)
				case abi.Error:
					back, err = ffi2abi.ConvertFFIErrorDefinitionToABI(ctx, &ffi.Errors[0].FFIErrorDefinition)
				default:
					back, err = ffi2abi.ConvertFFIMethodToABI(ctx, ffi.Methods[0])
				}
				if err != nil {
					return "err"
				}
				ins := []any{}
				for _, p := range back.Inputs {
					ins = append(ins, normParam(p))
				}
				sig, _ := e.Signature()
				bsig, _ := back.Signature()
				return ok(map[string]any{"back": ins, "sig": sig, "backSig": bsig, "helper": ffi2abi.ABIMethodToSignature(e), "type": string(back.Type), "name": back.Name})
			}
			return "bad-op"
		},
		Judge: func(c *Ctx, req map[string]any, impl any, orc map[string]any) []Finding {
			var fs []Finding
			if impl == "panic" {
				return []Finding{{Kind: "violation", Region: str(req, "op") + ".panic", Detail: "conversion panicked"}}
			}
			switch str(req, "op") {
			case "ffi.toABI":
				if req["unmarshalErr"] == true {
					if impl != "err" {
						fs = append(fs, Finding{Kind: "violation", Region: "ffi.toABI.accepts-undecodable", Detail: "a schema that does not decode was converted"})
					}
					return fs
				}
				if !same(impl, orc["model"]) {
					fs = append(fs, Finding{Kind: "mismatch", Region: "ffi.toABI", Detail: "schema → ABI conversion differs from model"})
				}
			case "ffi.roundtrip":
				m, isok := impl.(map[string]any)
				if !isok {
					return []Finding{{Kind: "violation", Region: "ffi.roundtrip.fails", Detail: "valid ABI entry did not survive ABI→FFI→ABI"}}
				}
				o := m["ok"].(map[string]any)
				var orig []any
				for _, p := range req["entry"].(map[string]any)["inputs"].([]any) {
					orig = append(orig, normParamJSON(p))
				}
				if !same(o["back"], orig) {
					fs = append(fs, Finding{Kind: "violation", Region: "ffi.roundtrip.params", Detail: "parameter names / types / nesting / indexed flags changed in ABI→FFI→ABI"})
				}
				if o["backSig"] != orc["specSig"] || o["sig"] != orc["specSig"] {
					fs = append(fs, Finding{Kind: "violation", Region: "ffi.roundtrip.signature", Detail: "signature changed in ABI→FFI→ABI"})
				}
				if o["helper"] != orc["specSig"] {
					fs = append(fs, Finding{Kind: "violation", Region: "ffi.signature-helper", Detail: "ABIMethodToSignature differs from the entry's signature"})
				}
				var mb []any
				for _, b := range orc["back"].([]any) {
					if bm, isMap := b.(map[string]any); isMap {
						mb = append(mb, normParamJSON(bm["ok"]))
					} else {
						mb = append(mb, b)
					}
				}
				if !same(o["back"], mb) || o["helper"] != orc["helperSig"] {
					fs = append(fs, Finding{Kind: "mismatch", Region: "ffi.roundtrip", Detail: "round trip / helper signature differ from model"})
				}
			}
			return fs
		},
	})
}

// mutateSchema: one structural mutation of an FFI parameter schema (JSON text)
func mutateSchema(r *Rng, text string) string {
	var tree any
	d := json.NewDecoder(strings.NewReader(text))
	d.UseNumber()
	if d.Decode(&tree) != nil {
		return text
	}
	type site struct {
		parent map[string]any
		key    string
	}
	var sites []site
	var walk func(v any)
	walk = func(v any) {
		switch t := v.(type) {
		case map[string]any:
			for k, cv := range t {
				sites = append(sites, site{t, k})
				walk(cv)
			}
		case []any:
			for _, cv := range t {
				walk(cv)
			}
		}
	}
	walk(tree)
	// prefer the keys the property names
	var pref []site
	for _, s := range sites {
		switch s.key {
		case "type", "details", "items", "properties", "index", "oneOf":
			pref = append(pref, s)
		}
	}
	if len(pref) > 0 && r.Intn(5) > 0 {
		sites = pref
	}
	if len(sites) == 0 {
		return "{}"
	}
	s := sites[r.Intn(len(sites))]
	switch r.Intn(7) {
	case 0:
		delete(s.parent, s.key)
	case 1:
		s.parent[s.key] = nil
	case 2:
		if s.key == "index" {
			s.parent[s.key] = Pick(r, []any{json.Number("-1"), json.Number("99"), json.Number("0"), json.Number("1"), "x", json.Number("1.5")})
		} else {
			s.parent[s.key] = Pick(r, []any{"integer", "string", "object", "array", "boolean", "number", "uint256[]", "tuple", "bool", json.Number("5"), []any{}, map[string]any{}})
		}
	case 3:
		s.parent[s.key] = Pick(r, []any{"integer", "string", "object", "array", "boolean", "number"})
	case 4:
		if m, isMap := s.parent[s.key].(map[string]any); isMap {
			// duplicate a member under another name (colliding index)
			for k, v := range m {
				m[k+"_dup"] = v
				break
			}
		} else {
			delete(s.parent, s.key)
		}
	case 5:
		s.parent[s.key] = map[string]any{}
	default:
		s.parent[s.key] = []any{}
	}
	b, _ := json.Marshal(tree)
	return string(b)
}
