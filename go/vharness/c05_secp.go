//go:build verif

package main

import (
	"context"
	"fmt"
	"math/big"
	"strings"
	"sync"
	"sync/atomic"

	"github.com/hyperledger/firefly-signer/pkg/secp256k1"
	"golang.org/x/crypto/sha3"
)

var secpN, _ = new(big.Int).SetString("FFFFFFFFFFFFFFFFFFFFFFFFFFFFFFFEBAAEDCE6AF48A03BBFD25E8CD0364141", 16)

func keccak(b []byte) []byte {
	h := sha3.NewLegacyKeccak256()
	h.Write(b)
	return h.Sum(nil)
}

func bigOrNil(m map[string]any, k string) *big.Int {
	s, isStr := m[k].(string)
	if !isStr {
		return nil
	}
	z, okk := new(big.Int).SetString(s, 10)
	if !okk {
		return nil
	}
	return z
}

func optBig(z *big.Int) any {
	if z == nil {
		return nil
	}
	return z.String()
}

func cidOf(m map[string]any) int64 {
	z := bigOrNil(m, "cid")
	if z == nil {
		return 0
	}
	return z.Int64()
}

var chainIDs = []int64{0, 1, 127, 128, 1337, 1<<31 - 1, 1 << 31, 1 << 32, 1 << 53}

func genKey(r *Rng) []byte {
	k := make([]byte, 32)
	switch r.Intn(8) {
	case 0:
		k[31] = 1
	case 1:
		copy(k, new(big.Int).Sub(secpN, big.NewInt(1)).FillBytes(make([]byte, 32)))
	case 2:
		copy(k[2+r.Intn(20):], r.Bytes(32))
		if new(big.Int).SetBytes(k).Sign() == 0 {
			k[31] = 7
		}
	default:
		for {
			copy(k, r.Bytes(32))
			z := new(big.Int).SetBytes(k)
			if z.Sign() > 0 && z.Cmp(secpN) < 0 {
				break
			}
		}
	}
	return k
}

func recReq(key []byte, V, R, S *big.Int, digest []byte, cid int64, expect, vclass string) map[string]any {
	m := map[string]any{"op": "secp.recover", "digest": hx(digest), "cid": big.NewInt(cid).String(), "expect": expect, "vclass": vclass}
	if key != nil {
		m["key"] = hx(key)
	}
	if V != nil {
		m["V"] = V.String()
	}
	if R != nil {
		m["R"] = R.String()
	}
	if S != nil {
		m["S"] = S.String()
	}
	return m
}

func init() {
	register(&Suite{
		Prop:     "C05",
		Parallel: true,
		Gen: func(c *Ctx) {
			r := c.R
			// 1. V normalisation: exhaustive range × chain ids, plus selected large / negative / nil
			vmax := 1 << 12
			if c.Thorough() {
				vmax = 1 << 17
			}
			for _, cid := range chainIDs {
				for v := 0; v <= vmax; v++ {
					c.Add(map[string]any{"op": "secp.vnorm", "V": big.NewInt(int64(v)).String(), "cid": big.NewInt(cid).String()}, "vnorm.exh")
				}
				base := new(big.Int).Add(big.NewInt(35), new(big.Int).Mul(big.NewInt(cid), big.NewInt(2)))
				for _, d := range []int64{-300, -257, -256, -255, -29, -28, -27, -9, -8, -7, -2, -1, 0, 1, 2, 3, 27, 28, 254, 255, 256, 257, 258, 512, 513, 65536, 65537} {
					v := new(big.Int).Add(base, big.NewInt(d))
					c.Add(map[string]any{"op": "secp.vnorm", "V": v.String(), "cid": big.NewInt(cid).String()}, "vnorm.near155")
				}
				for _, e := range []uint{31, 32, 63, 64, 65, 128} {
					p := new(big.Int).Lsh(big.NewInt(1), e)
					for _, d := range []int64{-1, 0, 1, 27, 28, 35, 36} {
						v := new(big.Int).Add(p, big.NewInt(d))
						c.Add(map[string]any{"op": "secp.vnorm", "V": v.String(), "cid": big.NewInt(cid).String()}, "vnorm.large")
						vb := new(big.Int).Add(v, base)
						c.Add(map[string]any{"op": "secp.vnorm", "V": vb.String(), "cid": big.NewInt(cid).String()}, "vnorm.large")
						c.Add(map[string]any{"op": "secp.vnorm", "V": new(big.Int).Neg(v).String(), "cid": big.NewInt(cid).String()}, "vnorm.neg")
					}
				}
				c.Add(map[string]any{"op": "secp.vnorm", "cid": big.NewInt(cid).String()}, "vnorm.nil")
			}
			// 2. sign / recover
			nSig := 60
			if c.Thorough() {
				nSig = 1500
			}
			for i := 0; i < nSig; i++ {
				key := genKey(r)
				kp := secp256k1.KeyPairFromBytes(key)
				direct := r.Bool()
				var msg, digest []byte
				if direct {
					digest = r.Bytes(32)
					msg = digest
				} else {
					msg = r.Bytes(Pick(r, []int{0, 1, 31, 32, 33, 135, 136, 137, 4096, r.Intn(4097)}))
					digest = keccak(msg)
				}
				var sig *secp256k1.SignatureData
				var err error
				if direct {
					sig, err = kp.SignDirect(digest)
				} else {
					sig, err = kp.Sign(msg)
				}
				if err != nil {
					continue
				}
				cid := Pick(r, chainIDs)
				c.Add(map[string]any{"op": "secp.judgesig", "key": hx(key), "digest": hx(digest), "msg": hx(msg), "direct": direct,
					"V": sig.V.String(), "R": sig.R.String(), "S": sig.S.String(), "goaddr": hx(kp.Address[:])}, "sig")
				par := new(big.Int).Sub(sig.V, big.NewInt(27))
				v155 := new(big.Int).Add(big.NewInt(35), new(big.Int).Add(new(big.Int).Mul(big.NewInt(cid), big.NewInt(2)), par))
				// three conventions
				c.Add(recReq(key, sig.V, sig.R, sig.S, digest, cid, "signer", "legacy"), "rec.legacy")
				c.Add(recReq(key, par, sig.R, sig.S, digest, cid, "signer", "parity"), "rec.parity")
				c.Add(recReq(key, v155, sig.R, sig.S, digest, cid, "signer", "eip155"), "rec.eip155")
				// other V
				flip := new(big.Int).Sub(big.NewInt(55), sig.V) // 27<->28
				c.Add(recReq(key, flip, sig.R, sig.S, digest, cid, "notsigner", "flipped"), "rec.otherV")
				for _, d := range []int64{2, -2, 3, 4, -4, 5, 6, -6, 8, 16, -1 - 2*int64(r.Intn(3))} {
					c.Add(recReq(key, new(big.Int).Add(v155, big.NewInt(d)), sig.R, sig.S, digest, cid, "notsigner", "off155"), "rec.otherV")
				}
				c.Add(recReq(key, new(big.Int).Add(v155, big.NewInt(256*int64(1+r.Intn(5)))), sig.R, sig.S, digest, cid, "notsigner", "mod256"), "rec.mod256")
				c.Add(recReq(key, new(big.Int).Add(sig.V, new(big.Int).Lsh(big.NewInt(1), 64)), sig.R, sig.S, digest, cid, "notsigner", "trunc64"), "rec.trunc64")
				othercid := cid + 1
				v155o := new(big.Int).Add(v155, big.NewInt(2))
				c.Add(recReq(key, v155o, sig.R, sig.S, digest, othercid, "signer", "eip155"), "rec.eip155")
				c.Add(recReq(key, v155, sig.R, sig.S, digest, othercid+3, "notsigner", "wrongcid"), "rec.otherV")
				// altered message / R / S
				d2 := append([]byte{}, digest...)
				d2[r.Intn(32)] ^= byte(1 << r.Intn(8))
				c.Add(recReq(key, sig.V, sig.R, sig.S, d2, cid, "notsigner", "legacy"), "rec.badmsg")
				c.Add(recReq(key, sig.V, new(big.Int).Add(sig.R, big.NewInt(1)), sig.S, digest, cid, "notsigner", "legacy"), "rec.badR")
				c.Add(recReq(key, sig.V, sig.R, new(big.Int).Xor(sig.S, big.NewInt(int64(1+r.Intn(255)))), digest, cid, "notsigner", "legacy"), "rec.badS")
				// high-S twin with flipped V is the classic malleation: recovers the signer (not "altered" in the
				// property's sense of yielding the signer only for the produced signature) — modelled, not judged
				c.Add(recReq(key, flip, sig.R, new(big.Int).Sub(secpN, sig.S), digest, cid, "any", "legacy"), "rec.malleated")
				// malformed: nil / oversized / negative
				c.Add(recReq(key, sig.V, nil, sig.S, digest, cid, "notsigner", "legacy"), "rec.nil")
				c.Add(recReq(key, nil, sig.R, sig.S, digest, cid, "notsigner", "legacy"), "rec.nil")
				c.Add(recReq(key, sig.V, new(big.Int).Lsh(sig.R, 8), sig.S, digest, cid, "notsigner", "legacy"), "rec.big")
				c.Add(recReq(key, sig.V, sig.R, new(big.Int).Neg(sig.S), digest, cid, "notsigner", "legacy"), "rec.neg")
				// S mirrored to n-S with the same V (the malleated twin needs the other parity): not the signer
				c.Add(recReq(key, sig.V, sig.R, new(big.Int).Sub(secpN, sig.S), digest, cid, "notsigner", "legacy"), "rec.mirror")
				c.Add(recReq(key, v155, sig.R, new(big.Int).Sub(secpN, sig.S), digest, cid, "notsigner", "eip155"), "rec.mirror")
				c.Add(recReq(key, sig.V, big.NewInt(0), sig.S, digest, cid, "notsigner", "legacy"), "rec.zero")
				c.Add(recReq(key, sig.V, secpN, sig.S, digest, cid, "notsigner", "legacy"), "rec.n")
				// compact codec
				c.Add(map[string]any{"op": "secp.compact", "V": sig.V.String(), "R": sig.R.String(), "S": sig.S.String()}, "compact")
				c.Add(map[string]any{"op": "secp.compact", "V": v155.String(), "R": sig.R.String(), "S": sig.S.String()}, "compact.bigV")
				c.Add(map[string]any{"op": "secp.decodecompact", "hex": hx(r.Bytes(Pick(r, []int{0, 1, 64, 65, 65, 65, 66})))}, "decodecompact")
				if i%8 == 0 {
					b65 := r.Bytes(65)
					b65[64] = Pick(r, []byte{0, 1, 27, 28, 2, 26, 29, 35, 36, 255})
					c.Add(map[string]any{"op": "secp.decodecompact", "hex": hx(b65)}, "decodecompact.v")
				}
			}
			// one key pair shared by several goroutines signing different messages: every signature must still verify
			// and recover to the key's address
			for k := 0; k < 3; k++ {
				c.Add(map[string]any{"op": "keccak", "hex": "", "sharedKeyPair": true, "key": hx(genKey(r)), "seed": r.Intn(1 << 30)}, "shared-keypair")
			}
			// addresses: random keys plus keys whose public X or Y has a leading zero byte (searched)
			nAddr := 120
			if c.Thorough() {
				nAddr = 3000
			}
			for i := 0; i < nAddr; i++ {
				c.Add(map[string]any{"op": "secp.addr", "key": hx(genKey(r))}, "addr.random")
			}
			found := 0
			for k := int64(1); k < 20000 && found < 12; k++ {
				kb := big.NewInt(k + int64(r.Intn(1000))*20000).FillBytes(make([]byte, 32))
				kp := secp256k1.KeyPairFromBytes(kb)
				pb := kp.PublicKeyBytes()
				if pb[0] == 0 || pb[32] == 0 {
					c.Add(map[string]any{"op": "secp.addr", "key": hx(kb)}, "addr.leadingZeroXY")
					found++
				}
			}
			for i := 0; i < 30; i++ {
				c.Add(map[string]any{"op": "keccak", "hex": hx(r.Bytes(Pick(r, []int{0, 1, 135, 136, 137, 271, 272, 273, r.Intn(1000)})))}, "keccak")
			}
		},
		Impl: func(req map[string]any) any {
			switch str(req, "op") {
			case "secp.vnorm":
				s := &secp256k1.SignatureData{V: bigOrNil(req, "V")}
				b, err := secp256k1.VerifGetVNormalized(s, cidOf(req))
				if err != nil {
					return "err"
				}
				return ok(big.NewInt(int64(b)).String())
			case "secp.recover":
				s := &secp256k1.SignatureData{V: bigOrNil(req, "V"), R: bigOrNil(req, "R"), S: bigOrNil(req, "S")}
				a, err := s.RecoverDirect(unhx(str(req, "digest")), cidOf(req))
				if err != nil {
					return "err"
				}
				return ok(hx(a[:]))
			case "secp.judgesig":
				// determinism + hashing entry point consistency + caller's input untouched
				kp := secp256k1.KeyPairFromBytes(unhx(str(req, "key")))
				var sig *secp256k1.SignatureData
				var err error
				msg := unhx(str(req, "msg"))
				before := hx(msg)
				if req["direct"].(bool) {
					sig, err = kp.SignDirect(msg)
				} else {
					sig, err = kp.Sign(msg)
				}
				if err != nil {
					return "err"
				}
				out := map[string]any{"V": sig.V.String(), "R": sig.R.String(), "S": sig.S.String(), "msgUntouched": hx(msg) == before}
				if !req["direct"].(bool) {
					a, err := sig.Recover(msg, 0)
					if err != nil {
						out["recoverMsg"] = "err"
					} else {
						out["recoverMsg"] = hx(a[:])
					}
				}
				return ok(out)
			case "secp.compact":
				s := &secp256k1.SignatureData{V: bigOrNil(req, "V"), R: bigOrNil(req, "R"), S: bigOrNil(req, "S")}
				b := s.CompactRSV()
				return ok(hx(b))
			case "secp.decodecompact":
				s, err := secp256k1.DecodeCompactRSV(context.Background(), unhx(str(req, "hex")))
				if err != nil {
					return "err"
				}
				if hx(s.CompactRSV()) != strings.ToLower(str(req, "hex")) {
					// the 65-byte compact form must round-trip byte for byte
					return map[string]any{"roundtrip": false, "reenc": hx(s.CompactRSV()), "V": s.V.String(), "R": s.R.String(), "S": s.S.String()}
				}
				return ok(map[string]any{"V": s.V.String(), "R": s.R.String(), "S": s.S.String()})
			case "keccak":
				if req["sharedKeyPair"] == true {
					kp := secp256k1.KeyPairFromBytes(unhx(str(req, "key")))
					var bad, panics int64
					var wg sync.WaitGroup
					for g := 0; g < 8; g++ {
						wg.Add(1)
						go func(g int) {
							defer wg.Done()
							defer func() {
								if rec := recover(); rec != nil {
									atomic.AddInt64(&panics, 1)
								}
							}()
							for n := 0; n < 150; n++ {
								msg := []byte(fmt.Sprintf("message %v/%d/%d", req["seed"], g, n))
								sig, err := kp.Sign(msg)
								if err != nil {
									atomic.AddInt64(&bad, 1)
									continue
								}
								a, rerr := sig.Recover(msg, 0)
								if rerr != nil || *a != kp.Address {
									atomic.AddInt64(&bad, 1)
								}
							}
						}(g)
					}
					wg.Wait()
					return map[string]any{"shared": true, "bad": bad, "panics": panics}
				}
				return hx(keccak(unhx(str(req, "hex"))))
			case "secp.addr":
				kp := secp256k1.KeyPairFromBytes(unhx(str(req, "key")))
				return map[string]any{"addr": hx(kp.Address[:]), "pub": hx(kp.PublicKeyBytes())}
			}
			return "bad-op"
		},
		Judge: func(c *Ctx, req map[string]any, impl any, orc map[string]any) []Finding {
			var fs []Finding
			switch str(req, "op") {
			case "secp.vnorm", "secp.decodecompact":
				if !same(impl, orc["model"]) {
					fs = append(fs, Finding{Kind: "mismatch", Region: str(req, "op"), Detail: "differs from model"})
				}
				if impl == "panic" {
					fs = append(fs, Finding{Kind: "violation", Region: str(req, "op") + ".panic", Detail: "panicked"})
				}
				if m, isMap := impl.(map[string]any); isMap && m["roundtrip"] == false {
					fs = append(fs, Finding{Kind: "violation", Region: "secp.compact.roundtrip", Detail: "decoding the 65-byte compact form and encoding it again gives " + fmt.Sprint(m["reenc"])})
				}
			case "secp.addr":
				m := impl.(map[string]any)
				if m["addr"] != orc["addr"] {
					fs = append(fs, Finding{Kind: "violation", Region: "secp.addr", Detail: "KeyPair.Address is not keccak256(uncompressed public key)[12:]"})
				}
				if m["pub"] != orc["pub"] {
					fs = append(fs, Finding{Kind: "mismatch", Region: "prim.secp.pub", Detail: "Lean public key derivation differs from btcec"})
				}
			case "keccak":
				if m, isMap := impl.(map[string]any); isMap && m["shared"] == true {
					if fmt.Sprint(m["bad"]) != "0" || fmt.Sprint(m["panics"]) != "0" {
						fs = append(fs, Finding{Kind: "violation", Region: "secp.sign.shared-keypair", Detail: fmt.Sprintf("one key pair used from 8 goroutines: %v of 1200 signatures did not recover to the key's address, %v goroutines panicked", m["bad"], m["panics"])})
					}
					return fs
				}
				if !same(impl, orc["model"]) {
					fs = append(fs, Finding{Kind: "mismatch", Region: "prim.keccak", Detail: "Lean Keccak-256 differs from x/crypto/sha3"})
				}
			case "secp.compact":
				if !same(impl, orc["model"]) {
					fs = append(fs, Finding{Kind: "mismatch", Region: "secp.compact", Detail: "CompactRSV differs from model"})
				}
			case "secp.recover":
				if !same(impl, orc["model"]) {
					fs = append(fs, Finding{Kind: "mismatch", Region: "secp.recover", Detail: "RecoverDirect differs from model"})
				}
				if impl == "panic" {
					fs = append(fs, Finding{Kind: "violation", Region: "secp.recover.panic", Detail: "RecoverDirect panicked"})
				}
				addr, has := orc["addr"].(string)
				if has {
					isSigner := same(impl, ok(addr))
					switch str(req, "expect") {
					case "signer":
						if !isSigner {
							fs = append(fs, Finding{Kind: "violation", Region: "secp.recover.signer." + str(req, "vclass"), Detail: "valid signature did not recover the key's address"})
						}
					case "notsigner":
						if isSigner {
							fs = append(fs, Finding{Kind: "violation", Region: "secp.recover.notsigner." + str(req, "vclass"), Detail: "altered signature / other V recovered the signer's address"})
						}
					}
				}
			case "secp.judgesig":
				m, isok := impl.(map[string]any)
				if !isok {
					fs = append(fs, Finding{Kind: "violation", Region: "secp.sign", Detail: "signing failed"})
					break
				}
				o := m["ok"].(map[string]any)
				if o["V"] != str(req, "V") || o["R"] != str(req, "R") || o["S"] != str(req, "S") {
					fs = append(fs, Finding{Kind: "violation", Region: "secp.sign.determinism", Detail: "signing twice gave different signatures"})
				}
				if o["msgUntouched"] != true {
					fs = append(fs, Finding{Kind: "violation", Region: "secp.sign.mutates", Detail: "message buffer modified"})
				}
				if orc["shape"] != true {
					fs = append(fs, Finding{Kind: "violation", Region: "secp.sign.shape", Detail: "V∉{27,28} or R,S out of range / high S"})
				}
				if orc["verifies"] != true {
					fs = append(fs, Finding{Kind: "violation", Region: "secp.sign.verify", Detail: "signature does not verify against the key (Lean ECDSA)"})
				}
				if orc["addr"] != str(req, "goaddr") {
					fs = append(fs, Finding{Kind: "violation", Region: "secp.addr", Detail: "KeyPair.Address is not keccak256(pub)[12:]"})
				}
				if rm, has := o["recoverMsg"]; has && rm != orc["addr"] {
					fs = append(fs, Finding{Kind: "violation", Region: "secp.recover.message", Detail: "Recover(message) did not return the signer"})
				}
			}
			return fs
		},
	})
}
